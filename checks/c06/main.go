// C06 — node in-use accounting matches registered pipelines; nodes close exactly once.
package main

import (
	"fmt"
	"time"

	"verif/hk"
	"verif/hn"
	"verif/seqmc"
)

const prop = "C06"

func alphabet(types, pids []string, lists []string, nodeIDs []string) []string {
	var a []string
	for _, n := range nodeIDs {
		a = append(a, "regnode "+n)
	}
	for _, t := range types {
		for _, p := range pids {
			for _, l := range lists {
				a = append(a, fmt.Sprintf("regpipe %s %s %s", t, p, l))
			}
		}
	}
	for _, t := range types {
		for _, p := range pids {
			a = append(a, fmt.Sprintf("rmpipe %s %s", t, p), fmt.Sprintf("rmpipenodes %s %s", t, p))
		}
	}
	// the same removals with an already cancelled context: the outcome must not depend on it
	a = append(a, fmt.Sprintf("rmpipenodesx %s %s", types[0], pids[0]), "rmnodex "+nodeIDs[1])
	for _, n := range nodeIDs {
		a = append(a, "rmnode "+n)
	}
	// the object registered under the id is registered under it again: nothing may happen to it
	a = append(a, "regnodesame "+nodeIDs[0], "regnodesame "+nodeIDs[1])
	for _, t := range types {
		a = append(a, "send "+t)
	}
	return a
}

var harness = &seqmc.Harness{
	Property: prop,
	Configs: func(tier string) []seqmc.Config {
		if tier == "thorough" {
			return []seqmc.Config{
				{Name: "2 types x 3 pipeline ids x 4 node ids", Depth: 8,
					Alphabet: alphabet([]string{"t1", "t2"}, []string{"p1", "p2", "p3"}, []string{"n2,n3", "n1,n2,n3", "n2,n4", "n1,n1,n2,n3"}, []string{"n1", "n2", "n3", "n4"})},
				{Name: "failing Close on n2,n3; n1 a decorator with a Close of its own, n3 a NodeUnwrapper around the Closer", Depth: 8,
					Alphabet: alphabet([]string{"t1"}, []string{"p1", "p2"}, []string{"n2,n3", "n1,n2,n3"}, []string{"n1", "n2", "n3"})},
			}
		}
		return []seqmc.Config{
			{Name: "2 types x 2 pipeline ids x 4 node ids", Depth: 7,
				Alphabet: alphabet([]string{"t1", "t2"}, []string{"p1", "p2"}, []string{"n2,n3", "n1,n2,n3", "n2,n4", "n1,n1,n2,n3"}, []string{"n1", "n2", "n3", "n4"})},
			{Name: "failing Close on n2,n3; n1 a decorator with a Close of its own, n3 a NodeUnwrapper around the Closer", Depth: 7,
				Alphabet: alphabet([]string{"t1"}, []string{"p1", "p2"}, []string{"n2,n3", "n1,n2,n3"}, []string{"n1", "n2", "n3"})},
		}
	},
	New: func(tier string, cfg int) seqmc.Instance {
		r := hn.NewReg(hn.StdKinds())
		if cfg == 1 {
			r.CloseErrIDs = map[string]bool{"n2": true, "n3": true}
			r.WrapIDs = map[string]string{"n1": "cw", "n3": "w"}
		}
		return &hn.RegInstance{R: r, Types: []string{"t1", "t2"}}
	},
}

func main() {
	hk.Main(seqmc.Check(harness,
		"breadth-first search over all call histories up to the depth bound of {RegisterNode (incl. overwrite), RegisterPipeline (incl. overwrite and a list with a duplicated id), RemovePipeline, RemovePipelineAndNodes, RemoveNode (each also with an already cancelled context), probe Send} on the real Broker, states de-duplicated on the reflective dump of the Broker's entire private state (harness objects named id@age) plus the reference model. After every call: its result, which node objects were closed (exactly the expected ones, once) and the probe deliveries are compared with the model 'a node is in use iff a currently registered pipeline lists it'.",
		[]string{
			"'node' is the id registration: which object a re-registered id closes is an observation, not a violation",
			"depth 7 (quick) / 8 (thorough); 2 event types, 2-3 pipeline ids, 4 node ids",
		}, 300*time.Second, 45*time.Minute))
}
