// C07 — overwrite policy holds: DenyOverwrite is sticky, AllowOverwrite swaps atomically.
package main

import (
	"context"
	"fmt"
	"sort"
	"strings"
	"time"

	el "github.com/hashicorp/eventlogger"
	"verif/hk"
	"verif/hn"
	"verif/seqmc"
	"verif/vrt"
)

const prop = "C07"

// ---- sequential part: BFS over policy sequences ------------------------------------

func alphabet() []string {
	return []string{
		"regnode n2", "regnode n2 allow", "regnode n2 deny", "regnode n2 bogus", "regnode n2 empty", "regnode n2 bogus+allow", "regnodesame n2 deny", "regnodesame n2",
		"regnode n3", "regnode n3 deny", "regnode n4",
		"rmnode n2", "rmnode n3",
		"regpipe t1 p1 n2,n3", "regpipe t1 p1 n2,n3 allow", "regpipe t1 p1 n2,n3 deny", "regpipe t1 p1 n2,n3 bogus", "regpipe t1 p1 n2,n3 empty", "regpipe t1 p1 n2,n3 bogus+deny",
		"regpipe t1 p1 n2,n4", "regpipe t1 p1 n2,n4 deny",
		"regpipe t2 p1 n2,n3", "regpipe t2 p1 n2,n3 deny",
		"regpipe t1 p2 n2,n4", // a sibling pipeline of the same event type: the policy of p1 is p1's, whatever else is registered
		"rmpipe t1 p1", "rmpipe t2 p1", "rmpipenodes t1 p1",
		"send t1", "send t2",
	}
}

var harness = &seqmc.Harness{
	Property: prop,
	Configs: func(tier string) []seqmc.Config {
		d := 7
		if tier == "thorough" {
			d = 8
		}
		return []seqmc.Config{{Name: "policy-sequences", Alphabet: alphabet(), Depth: d, Permute: true},
			// the same with nodes whose Close reports an error: an explicit removal still removes them, so a
			// DenyOverwrite id is free again afterwards
			{Name: "policy-sequences, Close of n2 and n3 fails", Alphabet: alphabet(), Depth: d - 1}}
	},
	New: func(tier string, cfg int) seqmc.Instance {
		r := hn.NewReg(hn.StdKinds())
		if cfg == 1 {
			r.CloseErrIDs = map[string]bool{"n2": true, "n3": true}
		}
		return &hn.RegInstance{R: r, Types: []string{"t1", "t2"}}
	},
}

// ---- concurrent part: overwrites racing with Sends ----------------------------------

type conc struct {
	Name       string
	Overwrites int
	Senders    int
	Bound      int
	FreeBound  int
}

func concScenarios(tier string) []conc {
	b := 2
	if tier == "thorough" {
		b = 3
	}
	out := []conc{
		{Overwrites: 1, Senders: 1, Bound: b + 1},
		{Overwrites: 2, Senders: 1, Bound: b},
		{Overwrites: 1, Senders: 2, Bound: b, FreeBound: b + 2},
		{Overwrites: 2, Senders: 2, Bound: b - 1, FreeBound: b + 2},
	}
	for i := range out {
		out[i].Name = fmt.Sprintf("concurrent: %d overwrite(s) of t1/p1 || %d sender(s) (preemptions<=%d, non-default switches at blocking points<=%d [0=unlimited])", out[i].Overwrites, out[i].Senders, out[i].Bound, out[i].FreeBound)
	}
	return out
}

type stamps struct{ t int }

//go:norace
func (s *stamps) tick() int { s.t++; return s.t }

type ival struct{ call, ret int }

func concBody(c conc) func() string {
	return func() string {
		log := &hn.Log{}
		b, _ := el.NewBroker()
		reg := func(id string, n *hn.Node) {
			if err := b.RegisterNode(el.NodeID(id), n.AsNode()); err != nil {
				vrt.Fail("fixture: %v", err)
			}
		}
		// every version has its own formatter and sink objects; nodes contain a
		// scheduling point (a node takes time), so an overwrite can land while a
		// Send is inside a node of the old version
		for v := 1; v <= 3; v++ {
			m := hn.NewNode(log, fmt.Sprintf("m%d", v), el.NodeTypeFormatter, hn.Pass, nil)
			m.Yield = c.Senders == 1
			reg(fmt.Sprintf("m%d", v), m)
			reg(fmt.Sprintf("s%d", v), hn.NewNode(log, fmt.Sprintf("s%d", v), el.NodeTypeSink, hn.Drop, nil))
		}
		pipe := func(v int) error {
			return b.RegisterPipeline(el.Pipeline{PipelineID: "p1", EventType: "t1", NodeIDs: []el.NodeID{el.NodeID(fmt.Sprintf("m%d", v)), el.NodeID(fmt.Sprintf("s%d", v))}})
		}
		if err := pipe(1); err != nil {
			vrt.Fail("fixture: %v", err)
		}
		clk := &stamps{}
		ow := make([]ival, c.Overwrites)
		sends := make([]ival, c.Senders)
		payloads := make([]*int, c.Senders)
		vrt.GoNamed("overwriter", func() {
			for k := 0; k < c.Overwrites; k++ {
				ow[k].call = clk.tick()
				if err := pipe(k + 2); err != nil {
					vrt.Fail("overwrite %d failed: %v", k+1, err)
				}
				ow[k].ret = clk.tick()
			}
		})
		for i := 0; i < c.Senders; i++ {
			i := i
			payloads[i] = new(int)
			vrt.GoNamed(fmt.Sprintf("sender%d", i), func() {
				sends[i].call = clk.tick()
				st, err := b.Send(context.Background(), "t1", payloads[i])
				sends[i].ret = clk.tick()
				if err != nil || len(st.Complete()) != 1 {
					vrt.Fail("Send %d during overwrite: err=%v complete=%v (each Send must be processed by exactly one version)", i, err, st.Complete())
				}
			})
		}
		vrt.Join()
		var sig []string
		for i := 0; i < c.Senders; i++ {
			var markers []string
			var fmts []string
			for _, inv := range log.Invs() {
				if inv.InPay == any(payloads[i]) && strings.HasPrefix(inv.Node, "s") {
					markers = append(markers, inv.Node)
				}
				if inv.InPay == any(payloads[i]) && strings.HasPrefix(inv.Node, "m") {
					fmts = append(fmts, inv.Node)
				}
			}
			if len(markers) == 1 && (len(fmts) != 1 || fmts[0][1:] != markers[0][1:]) {
				vrt.Fail("Send %d was processed by formatter(s) %v and sink %v: a mix of two versions of pipeline t1/p1 (overwrites: %v)", i, fmts, markers, ow)
			}
			if len(markers) != 1 {
				vrt.Fail("Send %d [%d,%d] was processed by versions %v of pipeline t1/p1: exactly one expected (overwrites: %v)", i, sends[i].call, sends[i].ret, markers, ow)
			}
			var v int
			fmt.Sscanf(markers[0], "s%d", &v)
			// version v (1-based; version k+1 is installed by overwrite k) may be seen iff
			// it could have been installed by the Send's end and not yet replaced at its start
			if v >= 2 && ow[v-2].call > sends[i].ret {
				vrt.Fail("Send %d [%d,%d] was processed by version %d, which was registered only later (overwrites: %v)", i, sends[i].call, sends[i].ret, v, ow)
			}
			if v-1 < c.Overwrites && ow[v-1].ret < sends[i].call {
				vrt.Fail("Send %d [%d,%d] was processed by the superseded version %d although the overwriting call had already returned (overwrites: %v)", i, sends[i].call, sends[i].ret, v, ow)
			}
			sig = append(sig, fmt.Sprintf("send%d->v%d", i, v))
		}
		sort.Strings(sig)
		return strings.Join(sig, ",")
	}
}

// two registrations of the same pipeline id racing, one or both with DenyOverwrite
type denySc struct {
	Name     string
	PolA     string // policy of registration A (version 2)
	PolB     string // policy of registration B (version 3)
	Existing bool   // version 1 registered (AllowOverwrite) beforehand
	Bound    int
}

func denyScenarios(tier string) []denySc {
	b := 3
	if tier == "thorough" {
		b = 4
	}
	var out []denySc
	for _, ex := range []bool{false, true} {
		for _, pa := range []string{"allow", "deny"} {
			out = append(out, denySc{PolA: pa, PolB: "deny", Existing: ex, Bound: b})
		}
	}
	for i := range out {
		out[i].Name = fmt.Sprintf("concurrent RegisterPipeline(t1/p1 v2 %s) || RegisterPipeline(t1/p1 v3 %s), existing v1=%v", out[i].PolA, out[i].PolB, out[i].Existing)
	}
	return out
}

func denyBody(c denySc) func() string {
	return func() string {
		log := &hn.Log{}
		b, _ := el.NewBroker()
		b.RegisterNode("m", hn.NewNode(log, "m", el.NodeTypeFormatter, hn.Pass, nil).AsNode())
		for v := 1; v <= 3; v++ {
			b.RegisterNode(el.NodeID(fmt.Sprintf("s%d", v)), hn.NewNode(log, fmt.Sprintf("s%d", v), el.NodeTypeSink, hn.Drop, nil).AsNode())
		}
		pipe := func(v int, pol string) error {
			p := el.AllowOverwrite
			if pol == "deny" {
				p = el.DenyOverwrite
			}
			return b.RegisterPipeline(el.Pipeline{PipelineID: "p1", EventType: "t1", NodeIDs: []el.NodeID{"m", el.NodeID(fmt.Sprintf("s%d", v))}}, el.WithPipelineRegistrationPolicy(p))
		}
		if c.Existing {
			if err := pipe(1, "allow"); err != nil {
				vrt.Fail("fixture: %v", err)
			}
		}
		clk := &stamps{}
		var ia, ib ival
		var ea, eb error
		vrt.GoNamed("regA", func() { ia.call = clk.tick(); ea = pipe(2, c.PolA); ia.ret = clk.tick() })
		vrt.GoNamed("regB", func() { ib.call = clk.tick(); eb = pipe(3, c.PolB); ib.ret = clk.tick() })
		vrt.Join()
		// which version is live
		payload := new(int)
		b.Send(context.Background(), "t1", payload)
		live := ""
		for _, inv := range log.Invs() {
			if inv.InPay == any(payload) && strings.HasPrefix(inv.Node, "s") {
				live += inv.Node
			}
		}
		denyA, denyB := c.PolA == "deny" && ea == nil, c.PolB == "deny" && eb == nil
		switch {
		case denyA && denyB:
			vrt.Fail("two registrations of pipeline t1/p1 with DenyOverwrite both succeeded")
		case denyB && live != "s3":
			vrt.Fail("the DenyOverwrite registration (v3) succeeded but the live version is %q: it was overwritten (A: err=%v [%d,%d], B: [%d,%d])", live, ea, ia.call, ia.ret, ib.call, ib.ret)
		case denyA && live != "s2":
			vrt.Fail("the DenyOverwrite registration (v2) succeeded but the live version is %q: it was overwritten", live)
		case denyB && ea == nil && ia.call > ib.ret:
			vrt.Fail("registration A was called after the DenyOverwrite registration had returned, yet it succeeded")
		case ea != nil && eb != nil:
			vrt.Fail("both registrations failed: %v / %v", ea, eb)
		}
		// DenyOverwrite is sticky: a later registration fails
		if denyA || denyB {
			if err := pipe(1, "allow"); err == nil {
				vrt.Fail("a registration after a successful DenyOverwrite registration succeeded")
			}
		}
		return fmt.Sprintf("A=%v B=%v live=%s", ea == nil, eb == nil, live)
	}
}

func main() {
	hk.Main(&hk.Check{
		ID: prop,
		Scenarios: func(tier string) []string {
			n := []string{"BFS policy-sequences"}
			for _, c := range concScenarios(tier) {
				n = append(n, c.Name)
			}
			for _, c := range denyScenarios(tier) {
				n = append(n, c.Name)
			}
			return append(n, "BFS policy-sequences, Close of n2 and n3 fails")
		},
		SplitScenario: func(tier string, scn int) bool {
			return scn > 0 && scn <= len(concScenarios(tier))+len(denyScenarios(tier))
		},
		RunJob: func(tier string, job hk.Job, deadline time.Time) *hk.Result {
			if job.Scn == 0 {
				return seqmc.RunJob(harness, tier, job, deadline)
			}
			if job.Scn == 1+len(concScenarios(tier))+len(denyScenarios(tier)) {
				j := job
				j.Scn = 1 // second BFS configuration
				r := seqmc.RunJob(harness, tier, j, deadline)
				for i := range r.Violations {
					r.Violations[i].Scn = job.Scn
				}
				return r
			}
			if k := job.Scn - 1; k >= len(concScenarios(tier)) {
				d := denyScenarios(tier)[k-len(concScenarios(tier))]
				ex := &vrt.Explorer{Bound: d.Bound, Body: denyBody(d)}
				return hk.ExploreJob(prop, job, deadline, ex, d.Name)
			}
			c := concScenarios(tier)[job.Scn-1]
			ex := &vrt.Explorer{Bound: c.Bound, FreeBound: c.FreeBound, Permute: true, Body: concBody(c)}
			return hk.ExploreJob(prop, job, deadline, ex, c.Name)
		},
		Rule:           "(sequential) BFS over all histories up to the depth bound of RegisterNode / RegisterPipeline with policies {default, AllowOverwrite, DenyOverwrite, invalid} for node ids n2,n3 and pipeline id p1 in two event types, interleaved with RemoveNode / RemovePipeline / RemovePipelineAndNodes and probe Sends; the reference model keeps the policy with the live registration; every call's error and every probe's deliveries (object identity: which registration generation of a node id a pipeline uses) are compared. (concurrent) 1-2 overwrites of t1/p1 racing with 1-2 Sends, all schedules within the preemption bound and all sync.Map.Range orders: every Send is processed by exactly one version, never a version registered after the Send ended, never a superseded version once the overwriting call had returned; two registrations of one pipeline id racing, one or both with DenyOverwrite (with and without an existing registration): never two successful Deny registrations, a successful Deny registration is the live version afterwards and stays sticky.",
		Assumptions:    []string{"depth 6 (quick) / 8 (thorough); preemption bound 1-3 depending on the thread count"},
		QuickBudget:    300 * time.Second,
		ThoroughBudget: 45 * time.Minute,
	})
}
