// litmus — self-test of the scheduler's primitive models and of race detection
// inside the controlled scheduler (DESIGN.md §2.10). Every program is explored
// exhaustively (unbounded preemptions); the set of observed outcomes and
// verdict kinds must equal the expected set.
package main

import (
	"context"
	"fmt"
	"os"
	"sort"
	"strings"
	"time"

	"verif/hk"
	"verif/vrt"
	sync "verif/vrt/vsync"
)

type prog struct {
	name string
	body func() string
	want []string // expected outcome set (verdict kinds appear as VIOLATION:<kind>)
}

// viaJob programs are explored through hk.ExploreJob (the path the checks use), which starts a job over
// when state that lives as long as the process changes the choice structure between executions.
func viaJob(p prog) bool { return p.name == "process-global-lazy-cache" }

// processCache is state of the "code under test" that outlives an execution: the first execution of a
// process builds it (and meets other scheduling points than every later one).
var processCache sync.Map

type box struct{ x, y int }

func progs() []prog {
	return []prog{
		{"process-global-lazy-cache", func() string {
			var mu sync.Mutex
			b := &box{}
			for i := 0; i < 2; i++ {
				vrt.Go(func() {
					if _, ok := processCache.Load("k"); !ok {
						processCache.Store("k", 1)
					}
					mu.Lock()
					b.x++
					mu.Unlock()
				})
			}
			vrt.Join()
			return fmt.Sprint(b.x)
		}, []string{"2"}},
		{"mutex-counter", func() string {
			var mu sync.Mutex
			b := &box{}
			for i := 0; i < 2; i++ {
				vrt.Go(func() { mu.Lock(); b.x++; mu.Unlock() })
			}
			vrt.Join()
			return fmt.Sprint(b.x)
		}, []string{"2"}},
		{"unprotected-counter", func() string {
			b := &box{}
			for i := 0; i < 2; i++ {
				vrt.Go(func() { b.x++ })
			}
			vrt.Join()
			return fmt.Sprint(b.x)
		}, []string{"VIOLATION:race", "2"}},
		{"lock-then-unprotected-read", func() string {
			var mu sync.Mutex
			b := &box{}
			vrt.Go(func() { mu.Lock(); b.x = 1; mu.Unlock() })
			vrt.Go(func() { _ = b.x })
			vrt.Join()
			return "ok"
		}, []string{"VIOLATION:race", "ok"}},
		{"rwmutex-readers-writer", func() string {
			var mu sync.RWMutex
			b := &box{}
			out := make([]int, 2)
			vrt.Go(func() { mu.Lock(); b.x = 1; mu.Unlock() })
			for i := 0; i < 2; i++ {
				i := i
				vrt.Go(func() { mu.RLock(); out[i] = b.x; mu.RUnlock() })
			}
			vrt.Join()
			return fmt.Sprint(out)
		}, []string{"[0 0]", "[0 1]", "[1 0]", "[1 1]"}},
		{"rwmutex-recursive-read-with-writer", func() string {
			var mu sync.RWMutex
			vrt.Go(func() { mu.RLock(); mu.RLock(); mu.RUnlock(); mu.RUnlock() })
			vrt.Go(func() { mu.Lock(); mu.Unlock() })
			vrt.Join()
			return "ok"
		}, []string{"VIOLATION:deadlock", "ok"}},
		{"waitgroup", func() string {
			var wg sync.WaitGroup
			b := &box{}
			wg.Add(2)
			var mu sync.Mutex
			for i := 0; i < 2; i++ {
				vrt.Go(func() { mu.Lock(); b.x++; mu.Unlock(); wg.Done() })
			}
			wg.Wait()
			r := b.x
			vrt.Join()
			return fmt.Sprint(r)
		}, []string{"2"}},
		{"waitgroup-negative", func() string {
			var wg sync.WaitGroup
			wg.Add(1)
			wg.Done()
			wg.Done()
			return "ok"
		}, []string{"VIOLATION:misuse"}},
		{"unbuffered-handoff", func() string {
			ch := make(chan int)
			b := &box{}
			vrt.Go(func() { b.x = 7; vrt.Send(ch, 1) })
			v := vrt.Recv(ch)
			r := b.x + v
			vrt.Join()
			return fmt.Sprint(r)
		}, []string{"8"}},
		{"unbuffered-reverse-edge", func() string {
			// the receiver's writes before the receive are visible to the sender after the send
			ch := make(chan int)
			b := &box{}
			res := &box{}
			vrt.Go(func() { vrt.Send(ch, 1); res.x = b.y })
			b.y = 5
			vrt.Recv(ch)
			vrt.Join()
			return fmt.Sprint(res.x)
		}, []string{"5"}},
		{"buffered-cap1", func() string {
			ch := make(chan int, 1)
			var mu sync.Mutex
			order := ""
			vrt.Go(func() {
				vrt.Send(ch, 1)
				mu.Lock()
				order += "a"
				mu.Unlock()
				vrt.Send(ch, 2)
				mu.Lock()
				order += "b"
				mu.Unlock()
			})
			x := vrt.Recv(ch)
			mu.Lock()
			order += "r"
			mu.Unlock()
			y := vrt.Recv(ch)
			vrt.Join()
			return fmt.Sprint(x, y, " ", sortStr(order))
		}, []string{"1 2 abr"}},
		{"close-recv", func() string {
			ch := make(chan int, 1)
			vrt.Go(func() { vrt.Send(ch, 3); vrt.Close(ch) })
			a, ok1 := vrt.Recv2(ch)
			b, ok2 := vrt.Recv2(ch)
			vrt.Join()
			return fmt.Sprint(a, ok1, b, ok2)
		}, []string{"3 true 0 false"}},
		{"send-on-closed", func() string {
			ch := make(chan int, 1)
			vrt.Close(ch)
			vrt.Send(ch, 1)
			return "ok"
		}, []string{"VIOLATION:misuse"}},
		{"double-close", func() string {
			ch := make(chan int)
			vrt.Go(func() { vrt.Close(ch) })
			vrt.Go(func() { vrt.Close(ch) })
			vrt.Join()
			return "ok"
		}, []string{"VIOLATION:misuse"}},
		{"select-default", func() string {
			ch := make(chan int)
			vrt.Go(func() { vrt.Send(ch, 1) })
			k := vrt.CaseRecv(ch)
			r := "default"
			if vrt.Select(true, k) == 0 {
				r = fmt.Sprint("recv", k.V)
			} else {
				vrt.Recv(ch)
			}
			vrt.Join()
			return r
		}, []string{"default", "recv1"}},
		{"select-two-ready", func() string {
			a, b := make(chan int, 1), make(chan int, 1)
			vrt.Send(a, 1)
			vrt.Send(b, 2)
			ka, kb := vrt.CaseRecv(a), vrt.CaseRecv(b)
			return fmt.Sprint(vrt.Select(false, ka, kb))
		}, []string{"0", "1"}},
		{"select-nil-arm", func() string {
			var n chan int
			a := make(chan int, 1)
			vrt.Send(a, 1)
			kn, ka := vrt.CaseRecv(n), vrt.CaseRecv(a)
			return fmt.Sprint(vrt.Select(false, kn, ka))
		}, []string{"1"}},
		{"select-send-recv-pair", func() string {
			ch := make(chan int)
			res := &box{}
			vrt.Go(func() {
				k := vrt.CaseSend(ch, 9)
				vrt.Select(false, k)
			})
			k := vrt.CaseRecv(ch)
			vrt.Select(false, k)
			res.x = k.V
			vrt.Join()
			return fmt.Sprint(res.x)
		}, []string{"9"}},
		{"recv-forever", func() string {
			ch := make(chan int)
			vrt.Recv(ch)
			return "ok"
		}, []string{"VIOLATION:deadlock"}},
		{"ctx-cancel", func() string {
			ctx, cancel := context.WithCancel(context.Background())
			ch := make(chan int)
			b := &box{}
			vrt.Go(func() { b.x = 4; cancel() })
			kd, kc := vrt.CaseRecv(ctx.Done()), vrt.CaseRecv(ch)
			i := vrt.Select(false, kd, kc)
			r := b.x // ordered after the cancel by the real close->receive edge
			vrt.Join()
			return fmt.Sprint(i, r, ctx.Err() != nil)
		}, []string{"0 4 true"}},
		{"ctx-cancel-poll", func() string {
			ctx, cancel := context.WithCancel(context.Background())
			vrt.Go(func() { cancel() })
			k := vrt.CaseRecv(ctx.Done())
			i := vrt.Select(true, k)
			vrt.Join()
			return fmt.Sprint(i)
		}, []string{"-1", "0"}},
		{"chan-no-edge-race", func() string {
			// a write after the send is NOT ordered before the receiver's read
			ch := make(chan int, 1)
			b := &box{}
			vrt.Go(func() { vrt.Send(ch, 1); b.x = 1 })
			vrt.Recv(ch)
			_ = b.x
			vrt.Join()
			return "ok"
		}, []string{"VIOLATION:race", "?ok"}},
		{"gate", func() string {
			g := &vrt.Gate{}
			b := &box{}
			vrt.Go(func() { g.Wait(); b.y = b.x })
			b.x = 3
			g.Open()
			vrt.Join()
			return fmt.Sprint(b.y)
		}, []string{"3"}},
		{"syncmap-range", func() string {
			var m sync.Map
			m.Store("a", 1)
			m.Store("b", 2)
			vrt.Go(func() { m.Delete("a") })
			seen := ""
			m.Range(func(k, v any) bool { seen += k.(string); return true })
			vrt.Join()
			return sortStr(seen)
		}, []string{"ab", "b"}},
		{"panic", func() string {
			vrt.Go(func() { var p *box; p.x = 1 })
			vrt.Join()
			return "ok"
		}, []string{"VIOLATION:panic"}},
	}
}

func sortStr(s string) string {
	r := strings.Split(s, "")
	sort.Strings(r)
	return strings.Join(r, "")
}

func main() {
	ps := progs()
	if len(os.Args) > 1 && os.Args[1] == "-worker" || len(os.Args) > 1 && strings.Contains(os.Args[1], "replay") {
		run(ps)
		return
	}
	os.Setenv("VERIF_NO_EVIDENCE", "1")
	run(ps)
}

func run(ps []prog) {
	hk.Main(&hk.Check{
		ID: "LITMUS",
		Scenarios: func(string) []string {
			var n []string
			for _, p := range ps {
				n = append(n, p.name)
			}
			return n
		},
		RunJob: func(tier string, job hk.Job, deadline time.Time) *hk.Result {
			p := ps[job.Scn]
			res := &hk.Result{}
			seen := map[string]bool{}
			ex := &vrt.Explorer{Bound: -1, Permute: true, Body: p.body, RaceDetail: hk.RaceDetail}
			ex.OnViolation = func(v *vrt.Violation) bool { return true }
			if viaJob(p) {
				r := hk.ExploreJob("LITMUS", job, deadline, ex, nil)
				if len(r.Violations) > 0 {
					return r
				}
				// the first attempt in this process met the cache being built: it must have been noticed
				// (a prefix replayed against other enabled-set signatures) and the job started over
				if r.Counts["restarts_after_process_global_warmup"] < 1 {
					res.Violations = append(res.Violations, hk.Viol{Scn: job.Scn, Name: p.name, Kind: "oracle", Detail: "the change of choice structure caused by process-global state went unnoticed (no restart)"})
					return res
				}
				res.Add("restarts_after_process_global_warmup", r.Counts["restarts_after_process_global_warmup"])
			} else {
				ex.Explore(nil, false)
			}
			for k := range ex.Outcomes {
				seen[k] = true
			}
			// tsan reports each racing pair once per process: a race outcome once seen stays expected
			want := map[string]bool{}
			for _, w := range p.want {
				if strings.HasPrefix(w, "?") {
					// optional: tsan may or may not de-duplicate later reports of the same pair
					if seen[w[1:]] {
						want[w[1:]] = true
					}
					continue
				}
				want[w] = true
			}
			var bad []string
			for k := range seen {
				if !want[k] {
					bad = append(bad, "unexpected outcome "+k)
				}
			}
			for k := range want {
				if !seen[k] {
					if k == "VIOLATION:race" && !vrt.RaceBuild {
						continue
					}
					bad = append(bad, "missing outcome "+k)
				}
			}
			res.Add("execs", int64(ex.Execs))
			res.Add("steps", int64(ex.Steps))
			res.Add("nodes", int64(ex.Nodes))
			for k := range seen {
				res.Outcome(p.name + " => " + k)
			}
			res.Samples = append(res.Samples, p.name)
			if len(bad) > 0 {
				sort.Strings(bad)
				res.Err = fmt.Sprintf("litmus %s: %s (seen %v)", p.name, strings.Join(bad, "; "), keys(seen))
			}
			return res
		},
		Rule:        "exhaustive (unbounded) exploration of litmus programs; outcome sets compared with the Go memory-model/spec expectation",
		QuickBudget: 2 * time.Minute,
	})
}

func keys(m map[string]bool) []string {
	var k []string
	for x := range m {
		k = append(k, x)
	}
	sort.Strings(k)
	return k
}
