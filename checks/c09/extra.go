package main

import (
	"context"
	"encoding/json"
	"fmt"
	"strings"
	"time"

	el "github.com/hashicorp/eventlogger"
	"github.com/hashicorp/eventlogger/filters/encrypt"

	"verif/hk"
	"verif/shapes"
	"verif/vrt"
)

const rule = "payload shapes from an explicit grammar, every derivation: a spine of 1..3 (4 thorough) containers {struct value, *struct, []struct, []*struct, map[string]interface{}, map[string]string, Taggable map, Taggable struct, []Taggable map} ending in a leaf {string, []byte, []string, [][]byte, *wrapperspb.StringValue, *wrapperspb.BytesValue} carrying every class tag {none, public, sensitive, secret, each x redact/encrypt/hmac-sha256, unknown class, unknown operation, upper-case spellings} (full tag set at depth 1, a 6-tag cover deeper) or every Taggable key class, with optionally one sibling before or after the spine element at one level (tagged leaf, untagged leaf, untagged map, Taggable map, nested struct): 73k shapes run with the default operations; all shapes of depth <=2 x all 64 override maps over {public, sensitive, secret} x {none, redact, encrypt, hmac} x wrapper {present, absent, failing at its 1st / 2nd call}: 2.3M cases; plus top-level strings/slices, unsettable, nil and zero payloads and the 8 rotation payloads; plus 2 and 3 concurrent Process calls on one Filter (payloads with untagged maps, a Taggable map), all interleavings within the preemption bound (2 quick / 3 thorough): no canary readable in any forwarded event. Types are built at run time (reflect.StructOf with class tags); every leaf carries a unique canary. Oracle from the shape descriptor only (reference classifier written from the package documentation): no canary of a non-public leaf may be readable in the forwarded event (structural walk + JSON rendering; raw, base64 and base64url forms); redacted leaves equal [REDACTED]; an error forwards nothing; rotation payloads are consumed."

var assumptions = []string{
	"a value that is redacted where its tag dictated encryption/HMAC is counted (over_redactions) but is not a leak",
	"unexpected errors on a supported shape drop the event (fail closed) and are counted as outcome 'error', not as a leak",
	"grammar depth 3 (quick) / 4 (thorough); interface-typed struct fields and typed nils are outside the statement's list of supported shapes",
}

// ---- concurrent events through one Filter: what the filter keeps between events must not let one
// event's filtering undo another's ------------------------------------------------------------------

type docP struct {
	M   map[string]interface{}
	N   map[string]interface{}
	Sec string `class:"secret"`
	Pub string `class:"public"`
}

type tagP map[string]interface{}

func (t tagP) Tags() ([]encrypt.PointerTag, error) {
	return []encrypt.PointerTag{{Pointer: "/pub", Classification: encrypt.PublicClassification}, {Pointer: "/sec", Classification: encrypt.SecretClassification}}, nil
}

var concNames = []string{
	"2 x Process on one Filter, payloads with untagged maps",
	"3 x Process on one Filter, payloads with untagged maps and a Taggable map",
}

func extraScenarios(tier string) []string { return concNames }

func concBody(n int) func() string {
	return func() string {
		f := &encrypt.Filter{Wrapper: shapes.NewWrapper(5), HmacSalt: []byte("s"), HmacInfo: []byte("i")}
		outs := make([]*el.Event, n)
		errs := make([]error, n)
		for i := 0; i < n; i++ {
			i := i
			vrt.GoNamed(fmt.Sprintf("proc%d", i), func() {
				var p interface{} = &docP{
					M:   map[string]interface{}{"a": fmt.Sprintf("CANARYconc%dA", i), "deep": map[string]interface{}{"b": []byte(fmt.Sprintf("CANARYconc%dB", i))}},
					N:   map[string]interface{}{"c": []interface{}{fmt.Sprintf("CANARYconc%dC", i)}},
					Sec: fmt.Sprintf("CANARYconc%dS", i), Pub: fmt.Sprintf("public-%d", i)}
				if i == 2 {
					p = tagP{"pub": "public-2", "sec": "CANARYconc2S", "other": "CANARYconc2O", "m": map[string]interface{}{"x": "CANARYconc2X"}}
				}
				outs[i], errs[i] = f.Process(context.Background(), &el.Event{Type: "t", Payload: p})
			})
		}
		vrt.Join()
		sig := ""
		for i := 0; i < n; i++ {
			if errs[i] != nil || outs[i] == nil {
				vrt.Fail("Process %d failed under concurrent use of the filter: %v", i, errs[i])
			}
			b, err := json.Marshal(outs[i].Payload)
			if err != nil {
				vrt.Fail("forwarded payload %d cannot be rendered: %v", i, err)
			}
			if k := strings.Index(string(b), "CANARY"); k >= 0 {
				vrt.Fail("event %d was forwarded with unclassified / secret data readable (%q) when another event went through the same filter at the same time", i, string(b)[k:min(k+14, len(b))])
			}
			if !strings.Contains(string(b), fmt.Sprintf("public-%d", i)) {
				vrt.Fail("event %d lost its public value", i)
			}
			sig += "ok "
		}
		return sig
	}
}

func runExtra(tier string, i int, job hk.Job, deadline time.Time) *hk.Result {
	bound := 2
	if tier == "thorough" {
		bound = 3
	}
	ex := &vrt.Explorer{Bound: bound, Body: concBody(2 + i)}
	return hk.ExploreJob(prop, job, deadline, ex, concNames[i])
}
