package main

import (
	"time"

	"verif/hk"
)

const rule = "payload shapes from an explicit grammar, every derivation: a spine of 1..3 (4 thorough) containers {struct value, *struct, []struct, []*struct, map[string]interface{}, map[string]string, Taggable map, Taggable struct, []Taggable map} ending in a leaf {string, []byte, []string, [][]byte, *wrapperspb.StringValue, *wrapperspb.BytesValue} carrying every class tag {none, public, sensitive, secret, each x redact/encrypt/hmac-sha256, unknown class, unknown operation, upper-case spellings} (full tag set at depth 1, a 6-tag cover deeper) or every Taggable key class, with optionally one sibling before or after the spine element at one level (tagged leaf, untagged leaf, untagged map, Taggable map, nested struct): 73k shapes run with the default operations; all shapes of depth <=2 x all 64 override maps over {public, sensitive, secret} x {none, redact, encrypt, hmac} x wrapper {present, absent, failing at its 1st / 2nd call}: 2.3M cases; plus top-level strings/slices, unsettable, nil and zero payloads and the 8 rotation payloads. Types are built at run time (reflect.StructOf with class tags); every leaf carries a unique canary. Oracle from the shape descriptor only (reference classifier written from the package documentation): no canary of a non-public leaf may be readable in the forwarded event (structural walk + JSON rendering; raw, base64 and base64url forms); redacted leaves equal [REDACTED]; an error forwards nothing; rotation payloads are consumed."

var assumptions = []string{
	"a value that is redacted where its tag dictated encryption/HMAC is counted (over_redactions) but is not a leak",
	"unexpected errors on a supported shape drop the event (fail closed) and are counted as outcome 'error', not as a leak",
	"grammar depth 3 (quick) / 4 (thorough); interface-typed struct fields and typed nils are outside the statement's list of supported shapes",
}

func extraScenarios(tier string) []string { return nil }

func runExtra(tier string, i int, job hk.Job, deadline time.Time) *hk.Result { return &hk.Result{} }
