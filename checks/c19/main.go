// C19 — stock nodes are safe to share across pipelines and goroutines.
package main

import (
	"bytes"
	"context"
	"encoding/json"
	"fmt"
	"net/url"
	"os"
	"path/filepath"
	"strings"
	"time"

	el "github.com/hashicorp/eventlogger"
	"github.com/hashicorp/eventlogger/filters/encrypt"
	"github.com/hashicorp/eventlogger/filters/gated"
	ce "github.com/hashicorp/eventlogger/formatter_filters/cloudevents"
	"github.com/hashicorp/eventlogger/sinks/channel"
	"github.com/hashicorp/eventlogger/sinks/writer"
	"verif/hk"
	"verif/hn"
	"verif/shapes"
	"verif/vrt"
)

const prop = "C19"

var kinds = []string{"filter", "jsonfmt", "jsonff", "ce", "enc", "gated", "filesink", "writersink", "chansink"}

func class(k string) string {
	switch k {
	case "filter", "enc", "gated":
		return "filter"
	case "jsonfmt", "jsonff", "ce":
		return "formatter"
	}
	return "sink"
}

type scenario struct {
	Free    int
	Name    string
	X, Y    string
	Shared  bool
	Senders int
	Control string // none | reopen | encrotate | cerotate
	Bound   int
	Gate    bool
}

func scenarios(tier string) []scenario {
	var out []scenario
	b := 1
	if tier == "thorough" {
		b = 2
	}
	for _, x := range kinds {
		for _, y := range kinds {
			controls := []string{"none", "reopen"}
			if x == "enc" || y == "enc" {
				controls = append(controls, "encrotate")
			}
			if x == "ce" || y == "ce" {
				controls = append(controls, "cerotate")
			}
			if x == "gated" || y == "gated" {
				controls = append(controls, "gatedexpire")
			}
			for _, c := range controls {
				senders := 1
				if c == "none" || c == "gatedexpire" {
					senders = 2
				}
				out = append(out, scenario{X: x, Y: y, Senders: senders, Control: c, Bound: b})
				if x == y && class(x) != "formatter" || x == y && x == "ce" {
					out = append(out, scenario{X: x, Y: y, Shared: true, Senders: senders, Control: c, Bound: b})
				}
			}
			if tier == "thorough" {
				out = append(out, scenario{X: x, Y: y, Senders: 2, Control: "reopen", Bound: 1})
			}
		}
	}
	// FileSink's pass-through special /dev/stderr (os.Stderr is pointed at /dev/null while these run): its
	// byte counter is shared state like that of a real file
	for _, shared := range []bool{false, true} {
		out = append(out, scenario{X: "stderrsink", Y: "stderrsink", Shared: shared, Senders: 2, Control: "none", Bound: b},
			scenario{X: "stderrsink", Y: "stderrsink", Shared: shared, Senders: 1, Control: "reopen", Bound: b})
	}
	// a FileSink whose every write fails, shared by two pipelines and two senders (the Sends fail; what
	// matters is that the failure path is as race-free as the normal one)
	out = append(out, scenario{X: "fullfilesink", Y: "fullfilesink", Shared: true, Senders: 2, Control: "none", Bound: b},
		scenario{X: "fullfilesink", Y: "fullfilesink", Shared: true, Senders: 1, Control: "reopen", Bound: b})
	for i := range out {
		s := &out[i]
		// two full fan-outs (about ten threads) explode under free switches: bound
		// the non-default choices at blocking points as well (reported in the name)
		if tier == "thorough" {
			s.Free = 3
		} else if s.Control == "gatedexpire" {
			s.Bound, s.Free = 1, 2 // the second sender must be able to overtake the first inside its Sender.Send
		} else if s.Senders == 2 {
			s.Bound, s.Free = 0, 3
		} else {
			s.Bound, s.Free = 1, 2
		}
		s.Gate = s.X == "gated" || s.Y == "gated"
		s.Name = fmt.Sprintf("p1=[filter,%s,..] p2=[%s,..] shared-instance=%v senders=%d control=%s (preemptions<=%d, non-default switches at blocking points<=%d)", s.X, s.Y, s.Shared, s.Senders, s.Control, s.Bound, s.Free)
	}
	return out
}

// gp is a Gateable payload without any shared harness state (the recording
// payload of C11 carries a pointer to a recorder that JSON encoding and
// copystructure would walk: a harness artefact, not a library access).
type gp struct {
	ID    string `class:"public"`
	Flush bool
	Seq   int
}

type gpComposite struct {
	ID   string `class:"public"`
	Seqs []int
}

func (g *gp) GetID() string    { return g.ID }
func (g *gp) FlushEvent() bool { return g.Flush }
func (g *gp) ComposeFrom(events []*el.Event) (el.EventType, interface{}, error) {
	c := &gpComposite{}
	for _, e := range events {
		p := e.Payload.(*gp)
		c.ID = p.ID
		c.Seqs = append(c.Seqs, p.Seq)
	}
	return "composite", c, nil
}

type payload struct {
	Pub  string `class:"public"`
	Sec  string `class:"secret"`
	Sens string `class:"sensitive"`
	N    int
}

// ewPayload additionally names an event id: encrypt.Filter derives a per-event wrapper for it and reads
// its own salt and info for the HMACs (the EventWrapperInfo path).
type ewPayload struct {
	payload
	HS string `class:"sensitive,hmac-sha256"`
}

func (p *ewPayload) EventId() string  { return "ev-19" }
func (p *ewPayload) HmacSalt() []byte { return nil }
func (p *ewPayload) HmacInfo() []byte { return nil }

// line-recording writer (norace pre-allocated)
type lineWriter struct {
	probe int
	n     int
	lines [32][]byte
	in    int
	bad   bool
}

//go:norace
func (w *lineWriter) add(p []byte) {
	if w.in > 0 {
		w.bad = true
	}
	w.in++
	if w.n < len(w.lines) {
		w.lines[w.n] = append([]byte(nil), p...)
	}
	w.n++
	w.in--
}

// Write is what a plain, not thread-safe io.Writer does: it touches its own state (probe is visible to
// the race detector), so two Write calls that the sink does not serialise are a reported race.
func (w *lineWriter) Write(p []byte) (int, error) {
	w.probe++
	w.add(p)
	return len(p), nil
}

//go:norace
func (w *lineWriter) all() [][]byte { return w.lines[:min(w.n, len(w.lines))] }

type nullSender struct{ n int }

//go:norace
func (s *nullSender) count() { s.n++ }

func (s *nullSender) Send(ctx context.Context, t el.EventType, payload interface{}) (el.Status, error) {
	s.count()
	vrt.Point("inside Sender.Send")
	return el.Status{}, nil
}

type world struct {
	gateBroker bool
	gates      []*gated.Filter
	b          *el.Broker
	writers    []*lineWriter
	files      []string
	chans      []chan *el.Event
	encs       []*encrypt.Filter
	ces        []*ce.FormatterFilter
	nodeN      int
	dir        string
	rec        *hn.GateRec
	clk        *hn.Clock
}

func (w *world) reg(n el.Node) el.NodeID {
	w.nodeN++
	id := el.NodeID(fmt.Sprintf("n%d", w.nodeN))
	if err := w.b.RegisterNode(id, n); err != nil {
		vrt.Fail("fixture: %v", err)
	}
	return id
}

func (w *world) mk(kind string) (el.Node, string) {
	switch kind {
	case "filter":
		return &el.Filter{Predicate: func(e *el.Event) (bool, error) { return true, nil }}, ""
	case "jsonfmt":
		return &el.JSONFormatter{}, el.JSONFormat
	case "jsonff":
		return &el.JSONFormatterFilter{Predicate: func(interface{}) (bool, error) { return true, nil }}, el.JSONFormat
	case "ce":
		src, _ := url.Parse("https://example.test/src")
		f := &ce.FormatterFilter{Source: src, Signer: func(_ context.Context, b []byte) (string, error) { return "sig1", nil }, SignEventTypes: []string{"t"}}
		w.ces = append(w.ces, f)
		return f, string(ce.FormatJSON)
	case "enc":
		f := &encrypt.Filter{Wrapper: shapes.NewWrapper(3), HmacSalt: []byte("s"), HmacInfo: []byte("i")}
		w.encs = append(w.encs, f)
		return f, ""
	case "gated":
		f := &gated.Filter{Broker: nil, Expiration: time.Second, NowFunc: w.clk.Now}
		if w.gateBroker {
			// expired groups are flushed through a Sender: both senders can enter the expiry sweep
			f.Broker = &nullSender{}
		}
		w.gates = append(w.gates, f)
		return f, ""
	case "filesink":
		p := filepath.Join(w.dir, fmt.Sprintf("fs%d", len(w.files)))
		w.files = append(w.files, p)
		return &el.FileSink{Path: p, FileName: "out.log", MaxBytes: 8}, ""
	case "stderrsink":
		return &el.FileSink{Path: "/dev/stderr"}, ""
	case "fullfilesink":
		// every write fails (the file is a symbolic link to /dev/full): the reopen-and-retry path runs
		p := filepath.Join(w.dir, fmt.Sprintf("full%d", w.nodeN))
		os.MkdirAll(p, 0o755)
		os.Symlink("/dev/full", filepath.Join(p, "out.log"))
		return &el.FileSink{Path: p, FileName: "out.log"}, ""
	case "writersink":
		lw := &lineWriter{}
		w.writers = append(w.writers, lw)
		return &writer.Sink{Writer: lw}, ""
	case "chansink":
		ch := make(chan *el.Event, 8)
		w.chans = append(w.chans, ch)
		s, _ := channel.NewChannelSink(ch, time.Hour)
		return s, ""
	}
	panic(kind)
}

// sinkFor builds a sink node reading the given format.
func (w *world) sinkFor(kind, format string) el.Node {
	n, _ := w.mk(kind)
	switch s := n.(type) {
	case *el.FileSink:
		s.Format = format
	case *writer.Sink:
		s.Format = format
	}
	return n
}

var devNull *os.File

func body(sc scenario, scratch string) func() string {
	return func() string {
		dir, err := os.MkdirTemp(scratch, "c19")
		if err != nil {
			vrt.Fail("harness: %v", err)
		}
		defer os.RemoveAll(dir)
		if sc.X == "stderrsink" {
			if devNull == nil {
				devNull, _ = os.OpenFile(os.DevNull, os.O_WRONLY, 0)
			}
			saved := os.Stderr
			os.Stderr = devNull
			defer func() { os.Stderr = saved }()
		}
		w := &world{dir: dir, rec: &hn.GateRec{Type: "composite"}, clk: &hn.Clock{}, gateBroker: sc.Control == "gatedexpire"}
		w.b, _ = el.NewBroker()
		vrt.Quiet(func() {
			var shared el.Node
			var sharedFmt string
			build := func(pid string, k string, asInner bool) {
				var ids []el.NodeID
				if asInner {
					f0, _ := w.mk("filter")
					ids = append(ids, w.reg(f0))
				}
				var n el.Node
				var format string
				if sc.Shared && shared != nil {
					n, format = shared, sharedFmt
				} else {
					n, format = w.mk(k)
					shared, sharedFmt = n, format
				}
				switch class(k) {
				case "filter":
					fm, f := w.mk("jsonfmt")
					ids = append(ids, w.reg(n), w.reg(fm), w.reg(w.sinkFor("writersink", f)))
				case "formatter":
					ids = append(ids, w.reg(n), w.reg(w.sinkFor("writersink", format)))
				default:
					fm, f := w.mk("jsonfmt")
					if s, ok := n.(*el.FileSink); ok {
						s.Format = f
					}
					ids = append(ids, w.reg(fm), w.reg(n))
				}
				if err := w.b.RegisterPipeline(el.Pipeline{PipelineID: el.PipelineID(pid), EventType: "t", NodeIDs: ids}); err != nil {
					vrt.Fail("fixture pipeline %s: %v", pid, err)
				}
			}
			build("p1", sc.X, true)
			build("p2", sc.Y, false)
		})
		ctx := context.Background()
		if sc.Control == "gatedexpire" {
			// one group is already gated and has expired when the two senders arrive
			vrt.Quiet(func() {
				for _, gf := range w.gates {
					gf.Process(ctx, &el.Event{Type: "t", Payload: &gp{ID: "old", Seq: 100}})
				}
				w.clk.Advance(2 * time.Second)
			})
		}
		for i := 0; i < sc.Senders; i++ {
			i := i
			vrt.GoNamed(fmt.Sprintf("sender%d", i), func() {
				var p interface{} = &payload{Pub: "pub", Sec: "sec", Sens: "sens", N: i}
				if (sc.X == "enc" || sc.Y == "enc") && (i == 1 || sc.Control == "encrotate") {
					p = &ewPayload{payload: payload{Pub: "pub", Sec: "sec", Sens: "sens", N: i}, HS: "hmac me"}
				}
				if sc.Gate {
					p = &gp{ID: "g0", Flush: i == 1, Seq: i + 1}
				}
				if _, err := w.b.Send(ctx, "t", p); err != nil && sc.X != "fullfilesink" {
					vrt.Fail("Send %d failed: %v", i, err)
				}
			})
		}
		switch sc.Control {
		case "reopen":
			vrt.GoNamed("reopen", func() {
				if err := w.b.Reopen(ctx); err != nil {
					vrt.Fail("Reopen failed: %v", err)
				}
			})
		case "encrotate":
			vrt.GoNamed("encrotate", func() {
				for _, f := range w.encs {
					f.Rotate(encrypt.WithWrapper(shapes.NewWrapper(4)), encrypt.WithSalt([]byte("s2")), encrypt.WithInfo([]byte("i2")))
				}
			})
		case "cerotate":
			vrt.GoNamed("cerotate", func() {
				for _, f := range w.ces {
					if err := f.Rotate(func(_ context.Context, b []byte) (string, error) { return "sig2", nil }); err != nil {
						vrt.Fail("cloudevents Rotate: %v", err)
					}
				}
			})
		}
		vrt.Join()
		// per-sink output integrity
		lines := 0
		check := func(where string, b []byte) {
			for _, l := range bytes.SplitAfter(b, []byte("\n")) {
				if len(l) == 0 {
					continue
				}
				lines++
				var v map[string]interface{}
				if l[len(l)-1] != '\n' || json.Unmarshal(l, &v) != nil {
					vrt.Fail("%s received corrupted output: %q is not one complete JSON line", where, l)
				}
			}
		}
		for i, lw := range w.writers {
			if lw.bad {
				vrt.Fail("writer sink %d: overlapping Write calls", i)
			}
			for _, l := range lw.all() {
				check(fmt.Sprintf("writer sink %d", i), l)
			}
		}
		for _, p := range w.files {
			ents, _ := os.ReadDir(p)
			for _, e := range ents {
				b, _ := os.ReadFile(filepath.Join(p, e.Name()))
				check("file sink "+e.Name(), b)
			}
		}
		return fmt.Sprintf("lines=%d", lines)
	}
}

func main() {
	hk.Main(&hk.Check{
		ID: prop,
		// S15 (repaired): once per process, the first formatting of a local time raced with the encrypt
		// filter's deep copy walking into time.Local; only a fresh process can show it again
		RegressionReplays: []string{"regress/C19-time-local.json"},
		Scenarios: func(tier string) []string {
			var n []string
			for _, s := range scenarios(tier) {
				n = append(n, s.Name)
			}
			return n
		},
		SplitScenario: func(tier string, scn int) bool { return tier == "thorough" },
		RunJob: func(tier string, job hk.Job, deadline time.Time) *hk.Result {
			sc := scenarios(tier)[job.Scn]
			scratch := os.Getenv("VERIF_SCRATCH")
			os.MkdirAll(scratch, 0o755)
			ex := &vrt.Explorer{Bound: sc.Bound, FreeBound: sc.Free, Body: body(sc, scratch)}
			return hk.ExploreJob(prop, job, deadline, ex, sc.Name)
		},
		Rule: "for every ordered pair (X,Y) of stock node kinds {Filter, JSONFormatter, JSONFormatterFilter, cloudevents FormatterFilter, encrypt.Filter, gated.Filter, FileSink (MaxBytes=8, real directory), writer.Sink, ChannelSink} (plus FileSink on the /dev/stderr pass-through path, shared and separate): two pipelines of one event type, X as an inner node of pipeline 1 (it runs in a child goroutine) and Y at the head of pipeline 2, so both work on the same *Event concurrently; separate instances and, for stateful kinds, one shared instance; 1-2 sender threads plus a control {none, Broker.Reopen, encrypt.Filter.Rotate, cloudevents Rotate, an expired gated group that both senders try to flush through a Sender}; every schedule within the bounds stated in each scenario's name (quick: 0-1 preemptions and 2-3 non-default switches at blocking points; thorough: 2 preemptions, 3 non-default switches) under the Go race detector inside the controlled scheduler; oracles: race / panic / deadlock per execution, every write received by a sink is one complete JSON line, no overlapping writes.",
		Assumptions: []string{
			"race detection is happens-before based, so low preemption bounds already expose every unordered access pair of the visited synchronisation orders",
			"8 senders and 4-pipeline compositions of the statement are not reached",
		},
		QuickBudget:    300 * time.Second,
		ThoroughBudget: 45 * time.Minute,
	})
	_ = strings.Join
}
