// C20 — Reopen reaches every node of every registered pipeline.
package main

import (
	"context"
	"errors"
	"fmt"
	"sort"
	"strings"
	"time"

	"verif/hk"
	"verif/hn"
	"verif/seqmc"
)

const prop = "C20"

func alphabet() []string {
	return []string{
		"regnode n1", "regnode n2", "regnode n3", "regnode n4",
		"regpipe t1 p1 n1,n2,n3", "regpipe t1 p2 n2,n4", "regpipe t2 p1 n2,n3", "regpipe t3 p1 n1,n2,n4",
		"regpipe t1 p3 n2,n3", "regpipe t1 p4 n2,n2,n3",
		// a "tee": nodes follow a sink (n5 is a formatter-filter); an id removed and registered again
		"regnode n5", "regpipe t2 p2 n2,n3,n5,n4", "rmnode n3", "rmnode n4",
		"rmpipe t1 p1", "rmpipenodes t2 p1", "rmpipe t3 p1", "rmpipenodes t1 p2",
		"reopen", "reopenx", "reopenfail n1", "reopenfail n2", "reopenfail n3", "reopenfail n4",
	}
}

type failErr struct{ obj string }

func (e *failErr) Error() string { return "reopen of " + e.obj + " fails" }

func extra(r *hn.Reg, f []string) (bool, string, string) {
	objs := r.AllObjects()
	before := map[*hn.Node]int{}
	for _, o := range objs {
		before[o] = o.Reopens
	}
	inChain := map[*hn.Node]bool{}
	for _, p := range r.MPipes {
		for _, o := range p.Objs {
			inChain[o] = true
		}
	}
	switch f[0] {
	case "reopen", "reopenx":
		// reopenx: the caller's context is already cancelled; the property is not conditional on it
		ctx, cancel := context.WithCancel(context.Background())
		if f[0] == "reopenx" {
			cancel()
		}
		err := r.B.Reopen(ctx)
		cancel()
		if err != nil {
			return true, "", fmt.Sprintf("%s: Reopen with no failing node returned %v", f[0], err)
		}
		var missed []string
		for o := range inChain {
			if o.Reopens-before[o] < 1 {
				missed = append(missed, r.NameOf(o))
			}
		}
		if len(missed) > 0 {
			sort.Strings(missed)
			return true, "", fmt.Sprintf(f[0]+": Reopen returned nil but never invoked Reopen on %v, which registered pipelines %s contain", missed, r.ModelKey())
		}
		return true, "reopened", ""
	case "reopenfail":
		id := f[1]
		var failing []*hn.Node
		for _, o := range objs {
			if o.Name == id {
				o.ReopenErr = &failErr{r.NameOf(o)}
				failing = append(failing, o)
			}
		}
		err := r.B.Reopen(context.Background())
		defer func() {
			for _, o := range failing {
				o.ReopenErr = nil
			}
		}()
		var live []*hn.Node
		for _, o := range failing {
			if inChain[o] {
				live = append(live, o)
			}
		}
		if len(live) == 0 {
			if err != nil {
				// a failing node that no registered pipeline contains need not be reached; if it is, the error must be its own
				for _, o := range failing {
					if errors.Is(err, o.ReopenErr) {
						return true, "unreferenced-node-reached", ""
					}
				}
				return true, "", fmt.Sprintf("Reopen returned %v although no node of a registered pipeline fails", err)
			}
			return true, "no-live-failing-node", ""
		}
		if err == nil {
			return true, "", fmt.Sprintf("node id %s fails on Reopen and registered pipelines contain it (%s), but Broker.Reopen returned nil", id, r.ModelKey())
		}
		carried := false
		for _, o := range live {
			if errors.Is(err, o.ReopenErr) {
				carried = true
			}
		}
		if !carried {
			return true, "", fmt.Sprintf("Broker.Reopen returned %q, which does not carry the failing node's error (errors.Is is false)", err)
		}
		return true, "error-carried", ""
	}
	return false, "", ""
}

var harness = &seqmc.Harness{
	Property: prop,
	Configs: func(tier string) []seqmc.Config {
		d := 7
		if tier == "thorough" {
			d = 9
		}
		return []seqmc.Config{{Name: "registry x reopen", Alphabet: alphabet(), Depth: d, Permute: true}}
	},
	New: func(tier string, cfg int) seqmc.Instance {
		return &hn.RegInstance{R: hn.NewReg(hn.StdKinds()), Types: []string{"t1", "t2", "t3"}, Extra: extra}
	},
}

func main() {
	_ = strings.Join
	hk.Main(seqmc.Check(harness,
		"BFS over all registry histories up to the depth bound on 3 event types with shared nodes (RegisterNode, RegisterPipeline, RemovePipeline, RemovePipelineAndNodes); in every reached state: Reopen with no failing node (with a live and with an already-cancelled context) must return nil and have invoked Reopen on every node object of every registered pipeline; with all objects of one node id failing (each node id in turn) it must return an error for which errors.Is(err, thatNode'sError) holds iff a registered pipeline contains such an object. The iteration order over the event types' graphs and over sync.Map.Range is an explored permutation for the Reopen step.",
		[]string{"depth 7 (quick) / 9 (thorough); 3 event types, 4 node ids, 6 pipeline definitions incl. pipelines sharing a leading node and one listing a node twice"},
		300*time.Second, 45*time.Minute))
}
