// C12 — Broker calls terminate even when nodes call back into the Broker.
package main

import (
	"context"
	"fmt"
	"time"

	el "github.com/hashicorp/eventlogger"
	"github.com/hashicorp/eventlogger/filters/gated"
	"verif/hk"
	"verif/hn"
	"verif/vrt"
)

const prop = "C12"

type scenario struct {
	Name    string
	Fixture string // "hook" or "gated"
	Hook    string // process | close | reopen | none      (hook fixture)
	Pending int    // gated fixture: pending groups
	Call    string
	Env     string // none | writer | sender | remover
	Bound   int
}

var hookCalls = []string{"send", "reopen", "rmpipenodes", "rmnode-unused", "rmpipe", "regnode", "regpipe", "setthr", "getthr", "isany",
	// early-return / error paths of every call: none may leave the lock held
	"getthr-unknown", "getthrs", "getthrs-unknown", "isany-unknown", "send-unknown", "rmpipe-unknown", "rmpipe-empty", "rmpipenodes-unknown",
	"rmpipenodes-unknownpid", "rmpipenodes-empty", "rmnode-unknown", "rmnode-inuse", "rmnode-empty", "regnode-denied", "regnode-empty", "regnode-badpolicy",
	"regpipe-invalid", "regpipe-denied", "regpipe-unknown-node", "regpipe-empty", "setthr-negative", "setthrs", "setthrs-negative", "setthr-empty", "reopen-failing", "reopen-failing-2types",
	// a pipeline that lists one node id twice: removing / overwriting it walks the linked nodes
	"rmpipenodes-dup", "rmpipe-dup", "regpipe-dup-overwrite",
	// closing wrapped nodes (NodeUnwrapper), also one whose Unwrap returns nil
	"rmnode-wrapper", "rmnode-wrapper-nil", "rmpipenodes-wrapper-nil"}
var gatedCalls = []string{"send-expiring", "send-flush", "rmpipenodes", "rmpipe+rmnode", "reopen", "reopen-expired", "regnode-replace", "send-expiring-gateable", "send-expiring-unroutable", "send-without-id"}

func scenarios(tier string) []scenario {
	var out []scenario
	bound := 2
	if tier == "thorough" {
		bound = 3
	}
	for _, hook := range []string{"process", "close", "reopen"} {
		for _, call := range hookCalls {
			for _, env := range []string{"none", "writer", "sender"} {
				out = append(out, scenario{Fixture: "hook", Hook: hook, Call: call, Env: env, Bound: bound})
			}
		}
	}
	for pending := 0; pending <= 3; pending++ {
		for _, call := range gatedCalls {
			for _, env := range []string{"none", "writer", "sender", "remover"} {
				if env == "remover" && call == "rmpipenodes" {
					continue
				}
				out = append(out, scenario{Fixture: "gated", Pending: pending, Call: call, Env: env, Bound: bound})
			}
		}
	}
	for i := range out {
		s := &out[i]
		if s.Env == "sender" && (s.Call == "send" || s.Call == "send-expiring" || s.Call == "send-flush" || s.Call == "reopen") {
			s.Bound-- // two concurrent fan-outs (each re-entering Send): one preemption less
		}
		if s.Fixture == "hook" {
			s.Name = fmt.Sprintf("hook-node re-enters Send from %s; call=%s env=%s", s.Hook, s.Call, s.Env)
		} else {
			s.Name = fmt.Sprintf("gated.Filter(Broker=same broker) pending=%d call=%s env=%s", s.Pending, s.Call, s.Env)
		}
	}
	return out
}

func must(err error, what string) {
	if err != nil {
		vrt.Fail("harness setup: %s: %v", what, err)
	}
}

func body(sc scenario) func() string {
	return func() string {
		ctx := context.Background()
		log := &hn.Log{}
		b, _ := el.NewBroker()
		// target pipeline for re-entrant Sends: type t2, plain nodes
		m2 := hn.NewNode(log, "m2", el.NodeTypeFormatter, hn.Pass, nil)
		s2 := hn.NewNode(log, "s2", el.NodeTypeSink, hn.Drop, nil)
		must(b.RegisterNode("m2", m2.AsNode()), "m2")
		must(b.RegisterNode("s2", s2.AsNode()), "s2")
		must(b.RegisterPipeline(el.Pipeline{PipelineID: "p2", EventType: "t2", NodeIDs: []el.NodeID{"m2", "s2"}}), "p2")
		m := hn.NewNode(log, "m", el.NodeTypeFormatter, hn.Pass, nil)
		s := hn.NewNode(log, "s", el.NodeTypeSink, hn.Drop, nil)
		must(b.RegisterNode("m", m.AsNode()), "m")
		must(b.RegisterNode("s", s.AsNode()), "s")
		reenter := func(c context.Context) {
			if _, err := b.Send(c, "t2", "re-entrant"); err != nil {
				vrt.Fail("re-entrant Send failed: %v", err)
			}
		}
		clk := &hn.Clock{}
		rec := &hn.GateRec{Type: "t2"}
		var gf *gated.Filter
		seq := 0
		switch sc.Fixture {
		case "hook":
			f := hn.NewNode(log, "f", el.NodeTypeFilter, hn.Pass, nil)
			u := hn.NewNode(log, "u", el.NodeTypeSink, hn.Drop, nil) // registered, unused
			switch sc.Hook {
			case "process":
				f.OnProcess = func(c context.Context, e *el.Event) { reenter(c) }
			case "close":
				f.OnClose = func(c context.Context) { reenter(c) }
				u.OnClose = func(c context.Context) { reenter(c) }
			case "reopen":
				f.OnReopen = func() { reenter(ctx) }
			}
			must(b.RegisterNode("f", f.AsNode()), "f")
			must(b.RegisterNode("u", u.AsNode()), "u")
			must(b.RegisterPipeline(el.Pipeline{PipelineID: "p1", EventType: "t1", NodeIDs: []el.NodeID{"f", "m", "s"}}), "p1")
		case "gated":
			gf = &gated.Filter{Broker: b, Expiration: time.Second, NowFunc: clk.Now}
			must(b.RegisterNode("f", gf), "gated")
			must(b.RegisterPipeline(el.Pipeline{PipelineID: "p1", EventType: "t1", NodeIDs: []el.NodeID{"f", "m", "s"}}), "p1")
			vrt.Quiet(func() {
				for i := 0; i < sc.Pending; i++ {
					seq++
					if _, err := b.Send(ctx, "t1", &hn.GP{ID: fmt.Sprintf("g%d", i), Seq: seq, Rec: rec}); err != nil {
						vrt.Fail("setup Send: %v", err)
					}
					clk.Advance(time.Millisecond)
				}
			})
		}
		// environment thread
		switch sc.Env {
		case "writer":
			vrt.GoNamed("writer", func() {
				x := hn.NewNode(log, "z", el.NodeTypeSink, hn.Drop, nil)
				b.RegisterNode("z", x.AsNode())
			})
		case "sender":
			vrt.GoNamed("sender", func() {
				if sc.Fixture == "gated" {
					// a gateable event arriving after expiry: Process flushes expired groups through the Broker
					b.Send(ctx, "t1", &hn.GP{ID: "other", Seq: 99, Rec: rec})
				} else if sc.Hook == "process" && (sc.Call == "send" || sc.Call == "reopen") {
					// keep the thread count bounded: the call under test already nests a Send per hook
					b.Send(ctx, "t2", "concurrent")
				} else {
					b.Send(ctx, "t1", "concurrent")
				}
			})
		case "remover":
			vrt.GoNamed("remover", func() { b.RemovePipelineAndNodes(ctx, "t1", "p1") })
		}
		// the call under test
		ret := ""
		switch sc.Call {
		case "send":
			_, err := b.Send(ctx, "t1", "payload")
			ret = fmt.Sprint(err != nil)
		case "send-expiring":
			clk.Advance(2 * time.Second)
			seq++
			_, err := b.Send(ctx, "t1", &hn.GP{ID: "late", Seq: seq, Rec: rec})
			ret = fmt.Sprint(err != nil)
		case "send-expiring-gateable":
			// the expired group's composition yields a payload that is itself Gateable, of the filter's own
			// event type: it must be refused, not sent back into the filter that is holding its lock
			rec.Type = "t1"
			rec.GateableAt = rec.N() + 1
			clk.Advance(2 * time.Second)
			seq++
			_, err := b.Send(ctx, "t1", &hn.GP{ID: "late", Seq: seq, Rec: rec})
			ret = fmt.Sprint(err != nil)
		case "send-expiring-unroutable":
			// the expired groups compose to an event type nothing is registered for: the nested Send fails,
			// and with it the call - it must still return (the filter's clock does not move during the call)
			rec.Type = "t-unregistered"
			clk.Advance(2 * time.Second)
			seq++
			_, err := b.Send(ctx, "t1", &hn.GP{ID: "late", Seq: seq, Rec: rec})
			ret = fmt.Sprint(err != nil)
		case "send-without-id":
			// a gateable event without an ID is refused; the refusal leaves nothing behind: the next event goes through
			seq++
			_, err := b.Send(ctx, "t1", &hn.GP{ID: "", Seq: seq, Rec: rec})
			seq++
			_, err2 := b.Send(ctx, "t1", &hn.GP{ID: "late", Seq: seq, Rec: rec})
			ret = fmt.Sprint(err != nil, err2 != nil)
		case "send-flush":
			seq++
			_, err := b.Send(ctx, "t1", &hn.GP{ID: "g0", Flush: true, Seq: seq, Rec: rec})
			ret = fmt.Sprint(err != nil)
		case "reopen":
			ret = fmt.Sprint(b.Reopen(ctx) != nil)
		case "reopen-expired":
			// the pending groups have expired by the time Reopen reaches the filter
			clk.Advance(2 * time.Second)
			ret = fmt.Sprint(b.Reopen(ctx) != nil)
		case "regnode-replace":
			// the filter's pipeline is removed, then its node id is registered again (a replacement): whatever
			// the broker does with the replaced filter and the groups it still holds must terminate
			b.RemovePipeline("t1", "p1")
			ret = fmt.Sprint(b.RegisterNode("f", hn.NewNode(log, "f2", el.NodeTypeFilter, hn.Pass, nil).AsNode()) != nil)
		case "rmpipenodes":
			ok, err := b.RemovePipelineAndNodes(ctx, "t1", "p1")
			ret = fmt.Sprint(ok, err != nil)
		case "rmpipe+rmnode":
			b.RemovePipeline("t1", "p1")
			ret = fmt.Sprint(b.RemoveNode(ctx, "f") != nil)
		case "rmnode-unused":
			ret = fmt.Sprint(b.RemoveNode(ctx, "u") != nil)
		case "rmpipe":
			ret = fmt.Sprint(b.RemovePipeline("t1", "p1") != nil)
		case "regnode":
			ret = fmt.Sprint(b.RegisterNode("n", hn.NewNode(log, "n", el.NodeTypeSink, hn.Drop, nil).AsNode()) != nil)
		case "regpipe":
			ret = fmt.Sprint(b.RegisterPipeline(el.Pipeline{PipelineID: "p9", EventType: "t1", NodeIDs: []el.NodeID{"m", "s"}}) != nil)
		case "setthr":
			ret = fmt.Sprint(b.SetSuccessThreshold("t1", 1) != nil)
		case "getthr":
			n, ok := b.SuccessThreshold("t1")
			ret = fmt.Sprint(n, ok)
		case "isany":
			ret = fmt.Sprint(b.IsAnyPipelineRegistered("t1"))
		case "getthr-unknown":
			n, ok := b.SuccessThreshold("nope")
			ret = fmt.Sprint(n, ok)
		case "getthrs":
			n, ok := b.SuccessThresholdSinks("t1")
			ret = fmt.Sprint(n, ok)
		case "getthrs-unknown":
			n, ok := b.SuccessThresholdSinks("nope")
			ret = fmt.Sprint(n, ok)
		case "isany-unknown":
			ret = fmt.Sprint(b.IsAnyPipelineRegistered("nope"))
		case "send-unknown":
			_, err := b.Send(ctx, "nope", "x")
			ret = fmt.Sprint(err != nil)
		case "rmpipe-unknown":
			ret = fmt.Sprint(b.RemovePipeline("nope", "p1") != nil)
		case "rmpipe-empty":
			ret = fmt.Sprint(b.RemovePipeline("", "") != nil)
		case "rmpipenodes-unknown":
			ok, err := b.RemovePipelineAndNodes(ctx, "nope", "p1")
			ret = fmt.Sprint(ok, err != nil)
		case "rmpipenodes-unknownpid":
			ok, err := b.RemovePipelineAndNodes(ctx, "t2", "nope")
			ret = fmt.Sprint(ok, err != nil)
		case "rmpipenodes-empty":
			ok, err := b.RemovePipelineAndNodes(ctx, "", "")
			ret = fmt.Sprint(ok, err != nil)
		case "rmnode-unknown":
			ret = fmt.Sprint(b.RemoveNode(ctx, "nope") != nil)
		case "rmnode-inuse":
			ret = fmt.Sprint(b.RemoveNode(ctx, "m2") != nil)
		case "rmnode-empty":
			ret = fmt.Sprint(b.RemoveNode(ctx, "") != nil)
		case "regnode-denied":
			b.RegisterNode("dn", hn.NewNode(log, "dn", el.NodeTypeSink, hn.Drop, nil).AsNode(), el.WithNodeRegistrationPolicy(el.DenyOverwrite))
			ret = fmt.Sprint(b.RegisterNode("dn", hn.NewNode(log, "dn2", el.NodeTypeSink, hn.Drop, nil).AsNode()) != nil)
		case "regnode-empty":
			ret = fmt.Sprint(b.RegisterNode("", hn.NewNode(log, "e", el.NodeTypeSink, hn.Drop, nil).AsNode()) != nil)
		case "regnode-badpolicy":
			ret = fmt.Sprint(b.RegisterNode("bp", hn.NewNode(log, "bp", el.NodeTypeSink, hn.Drop, nil).AsNode(), el.WithNodeRegistrationPolicy("bogus")) != nil)
		case "regpipe-invalid":
			ret = fmt.Sprint(b.RegisterPipeline(el.Pipeline{PipelineID: "px", EventType: "t2", NodeIDs: []el.NodeID{"s2", "m2"}}) != nil)
		case "regpipe-denied":
			b.RegisterPipeline(el.Pipeline{PipelineID: "pd", EventType: "t2", NodeIDs: []el.NodeID{"m2", "s2"}}, el.WithPipelineRegistrationPolicy(el.DenyOverwrite))
			ret = fmt.Sprint(b.RegisterPipeline(el.Pipeline{PipelineID: "pd", EventType: "t2", NodeIDs: []el.NodeID{"m2", "s2"}}) != nil)
		case "regpipe-unknown-node":
			ret = fmt.Sprint(b.RegisterPipeline(el.Pipeline{PipelineID: "pu", EventType: "t2", NodeIDs: []el.NodeID{"m2", "nope"}}) != nil)
		case "regpipe-empty":
			ret = fmt.Sprint(b.RegisterPipeline(el.Pipeline{}) != nil)
		case "setthr-negative":
			ret = fmt.Sprint(b.SetSuccessThreshold("t1", -1) != nil)
		case "setthrs":
			ret = fmt.Sprint(b.SetSuccessThresholdSinks("t1", 1) != nil)
		case "setthrs-negative":
			ret = fmt.Sprint(b.SetSuccessThresholdSinks("t1", -1) != nil)
		case "setthr-empty":
			ret = fmt.Sprint(b.SetSuccessThreshold("", 1) != nil)
		case "rmnode-wrapper", "rmnode-wrapper-nil":
			w := hn.Wrapper{Node: hn.NewNode(log, "w", el.NodeTypeSink, hn.Drop, nil)}
			if sc.Call == "rmnode-wrapper" {
				w.Inner = hn.NewNode(log, "inner", el.NodeTypeSink, hn.Drop, nil).AsNode()
			}
			must(b.RegisterNode("w", w), "wrapper")
			ret = fmt.Sprint(b.RemoveNode(ctx, "w") != nil)
		case "rmpipenodes-wrapper-nil":
			w := hn.Wrapper{Node: hn.NewNode(log, "w", el.NodeTypeSink, hn.Drop, nil)}
			must(b.RegisterNode("w", w), "wrapper")
			must(b.RegisterPipeline(el.Pipeline{PipelineID: "pw", EventType: "t3", NodeIDs: []el.NodeID{"m", "w"}}), "pw")
			ok, err := b.RemovePipelineAndNodes(ctx, "t3", "pw")
			ret = fmt.Sprint(ok, err != nil)
		case "reopen-failing":
			m2.ReopenErr = fmt.Errorf("reopen fails")
			ret = fmt.Sprint(b.Reopen(ctx) != nil)
		case "reopen-failing-2types":
			// nodes of two event types fail: Reopen must still return (with an error)
			m2.ReopenErr = fmt.Errorf("reopen of m2 fails")
			m.ReopenErr = fmt.Errorf("reopen of m fails")
			s.ReopenErr = fmt.Errorf("reopen of s fails")
			ret = fmt.Sprint(b.Reopen(ctx) != nil)
		case "rmpipenodes-dup", "rmpipe-dup", "regpipe-dup-overwrite":
			d := hn.NewNode(log, "d", el.NodeTypeFormatter, hn.Pass, nil)
			must(b.RegisterNode("d", d.AsNode()), "d")
			must(b.RegisterPipeline(el.Pipeline{PipelineID: "pd", EventType: "t3", NodeIDs: []el.NodeID{"d", "d", "m", "s"}}), "pd")
			switch sc.Call {
			case "rmpipenodes-dup":
				ok, err := b.RemovePipelineAndNodes(ctx, "t3", "pd")
				ret = fmt.Sprint(ok, err != nil)
			case "rmpipe-dup":
				ret = fmt.Sprint(b.RemovePipeline("t3", "pd") != nil)
			default:
				ret = fmt.Sprint(b.RegisterPipeline(el.Pipeline{PipelineID: "pd", EventType: "t3", NodeIDs: []el.NodeID{"d", "m", "d", "s"}}) != nil)
			}
		}
		vrt.Join()
		// the broker must still be usable: no call may leave it permanently locked
		b.IsAnyPipelineRegistered("t1")
		must(b.RegisterNode("after", hn.NewNode(log, "after", el.NodeTypeSink, hn.Drop, nil).AsNode()), "broker still usable")
		return fmt.Sprintf("ret=%s composed=%d", ret, rec.N())
	}
}

func main() {
	hk.Main(&hk.Check{
		ID: prop,
		Scenarios: func(tier string) []string {
			var n []string
			for _, s := range scenarios(tier) {
				n = append(n, s.Name)
			}
			return n
		},
		SplitScenario: func(tier string, scn int) bool { return true },
		RunJob: func(tier string, job hk.Job, deadline time.Time) *hk.Result {
			sc := scenarios(tier)[job.Scn]
			ex := &vrt.Explorer{Bound: sc.Bound, Body: body(sc)}
			return hk.ExploreJob(prop, job, deadline, ex, sc.Name)
		},
		Rule: "scenarios: every Broker call, including every early-return / error path (unknown and empty event types, ids and policies, denied overwrites, invalid pipelines, negative thresholds, a Reopen failing in one or in two event types, removing / overwriting a pipeline that lists a node id twice), x a harness node that re-enters Send on the same Broker from Process / Close / Reopen, and the real gated.Filter (Broker = the same broker) with 0..3 pending groups (calls: a Send that expires them, a flush event, removals, Reopen before and after their expiry, replacing the filter's node id), x {no other thread, a concurrent RegisterNode waiting for the write lock, a concurrent Send, a concurrent RemovePipelineAndNodes}; every schedule within the preemption bound on the real code with the modelled writer-preferring RWMutex; verdict: deadlock (with each blocked thread's lock and stack), plus the Broker must accept a write-locking call afterwards",
		Assumptions: []string{
			"RWMutex model follows sync.RWMutex: a Lock that has announced itself blocks later RLocks, so reader recursion with a waiting writer deadlocks in the model as in Go",
			"'bounded time' is judged as: every thread finishes in every explored schedule (no deadlock, step horizon 40000)",
		},
		QuickBudget:    300 * time.Second,
		ThoroughBudget: 30 * time.Minute,
	})
}
