// C01 — every registered pipeline of the event's type sees the event, in node order.
package main

import (
	"fmt"
	"time"

	el "github.com/hashicorp/eventlogger"
	"verif/hk"
	"verif/hn"
	"verif/vrt"
)

const prop = "C01"

var (
	P, R, D, E = hn.Pass, hn.Replace, hn.Drop, hn.Err
	EV         = hn.ErrEv
)

// scriptVectors enumerates the behaviour vectors of a pipeline of n nodes up to
// reachability: a prefix of pass/replace, then a terminal (drop/err) at k, or
// pass/replace to the end.
func scriptVectors(n int) [][]hn.Script {
	var out [][]hn.Script
	var rec func(cur []hn.Script)
	rec = func(cur []hn.Script) {
		if len(cur) == n {
			out = append(out, append([]hn.Script(nil), cur...))
			return
		}
		for _, t := range []hn.Script{D, E, EV} {
			v := append(append([]hn.Script(nil), cur...), t)
			for len(v) < n {
				v = append(v, P)
			}
			out = append(out, v)
		}
		for _, s := range []hn.Script{P, R} {
			rec(append(cur, s))
		}
	}
	rec(nil)
	return out
}

func scenarios(tier string) []*hn.Scenario {
	var out []*hn.Scenario
	add := func(b *hn.Builder, cancel, bound int, permute bool) {
		sc := b.Scenario()
		sc.Cancel, sc.Bound, sc.Permute = cancel, bound, permute
		sc.Name = fmt.Sprintf("%s cancel=%d", sc.Name, cancel)
		out = append(out, sc)
	}
	thorough := tier == "thorough"
	b1 := 1
	if thorough {
		b1 = 2
	}
	// A. one pipeline, 2..5 nodes, every behaviour vector
	for n := 2; n <= 5; n++ {
		for vi, v := range scriptVectors(n) {
			for cancel := 0; cancel <= 2; cancel++ {
				if !thorough && cancel == 2 && vi%4 != 0 {
					continue
				}
				add(hn.NewBuilder(fmt.Sprintf("A n=%d scripts=%v", n, v)).Std("t1", "p1", v...), cancel, 2, false)
			}
		}
	}
	// B. two pipelines of the sent type: behaviour vectors x sharing patterns
	vec2 := scriptVectors(2)
	vec3 := scriptVectors(3)
	for i, va := range vec3 {
		for j, vb := range vec2 {
			if !thorough && (i+j)%3 != 0 {
				continue
			}
			for cancel := 0; cancel <= 1; cancel++ {
				add(hn.NewBuilder(fmt.Sprintf("B disjoint %v|%v", va, vb)).Std("t1", "p1", va...).Std("t1", "p2", vb...), cancel, b1, true)
			}
		}
	}
	for _, rs := range []hn.Script{P, R, D, E} {
		for _, ms := range []hn.Script{P, R, D, E} {
			for cancel := 0; cancel <= 1; cancel++ {
				// shared root: the same node object is root of both pipelines
				b := hn.NewBuilder(fmt.Sprintf("B shared-root root=%s mid=%s", rs, ms)).
					Node("root", "root", el.NodeTypeFilter, rs).
					Node("m1", "m1", el.NodeTypeFormatter, ms).Node("s1", "s1", el.NodeTypeSink, D).
					Node("m2", "m2", el.NodeTypeFormatterFilter, P).Node("s2", "s2", el.NodeTypeSink, D).
					Pipe("t1", "p1", "root", "m1", "s1").Pipe("t1", "p2", "root", "m2", "s2")
				add(b, cancel, b1, true)
				// shared sink and shared formatter
				b = hn.NewBuilder(fmt.Sprintf("B shared-fmt-sink f1=%s f2=%s", rs, ms)).
					Node("f1", "f1", el.NodeTypeFilter, rs).Node("f2", "f2", el.NodeTypeFilter, ms).
					Node("m", "m", el.NodeTypeFormatter, P).Node("s", "s", el.NodeTypeSink, D).
					Pipe("t1", "p1", "f1", "m", "s").Pipe("t1", "p2", "f2", "m", "s")
				add(b, cancel, b1, true)
				// root of one pipeline is an inner node of the other
				b = hn.NewBuilder(fmt.Sprintf("B root-is-inner x=%s f=%s", rs, ms)).
					Node("x", "x", el.NodeTypeFormatter, rs).Node("f", "f", el.NodeTypeFilter, ms).
					Node("s1", "s1", el.NodeTypeSink, D).Node("s2", "s2", el.NodeTypeSink, D).
					Pipe("t1", "p1", "x", "s1").Pipe("t1", "p2", "f", "x", "s2")
				add(b, cancel, b1, true)
				// the same node id twice in one pipeline
				b = hn.NewBuilder(fmt.Sprintf("B dup-node f=%s m=%s", rs, ms)).
					Node("f", "f", el.NodeTypeFilter, rs).Node("m", "m", el.NodeTypeFormatter, ms).Node("s", "s", el.NodeTypeSink, D).
					Pipe("t1", "p1", "f", "f", "m", "s")
				add(b, cancel, 2, true)
			}
		}
	}
	// a sink in the middle of a pipeline (validation only constrains the last two nodes): what follows it
	// runs iff it returned an event, like after any other node
	for _, ms := range []hn.Script{P, R, D, E, EV} {
		for cancel := 0; cancel <= 2; cancel++ {
			add(hn.NewBuilder(fmt.Sprintf("B mid-sink s1=%s", ms)).
				Node("m1", "m1", el.NodeTypeFormatter, P).Node("s1", "s1", el.NodeTypeSink, ms).
				Node("m2", "m2", el.NodeTypeFormatterFilter, R).Node("s2", "s2", el.NodeTypeSink, D).
				Pipe("t1", "p1", "m1", "s1", "m2", "s2"), cancel, 2, false)
		}
	}
	// C. 3-4 pipelines over 1-3 event types: only the sent type's pipelines run
	for _, va := range [][]hn.Script{{P, P, D}, {R, P, D}, {P, E, P}, {D, P, P}} {
		for cancel := 0; cancel <= 1; cancel++ {
			add(hn.NewBuilder(fmt.Sprintf("C 3types %v", va)).Std("t1", "p1", va...).Std("t2", "p1", P, D).Std("t3", "p1", P, P, D), cancel, 2, true)
			add(hn.NewBuilder(fmt.Sprintf("C 2+1 %v", va)).Std("t1", "p1", va...).Std("t1", "p2", P, D).Std("t2", "p1", P, D), cancel, b1, true)
			add(hn.NewBuilder(fmt.Sprintf("C 3same %v", va)).Std("t1", "p1", va...).Std("t1", "p2", P, D).Std("t1", "p3", R, D), cancel, b1, cancel == 0)
			if thorough || cancel == 0 {
				add(hn.NewBuilder(fmt.Sprintf("C 4pipes %v", va)).Std("t1", "p1", va...).Std("t1", "p2", P, D).Std("t1", "p3", R, D).Std("t2", "p1", P, D), cancel, b1, false)
				add(hn.NewBuilder(fmt.Sprintf("C 4same %v", va)).Std("t1", "p1", va...).Std("t1", "p2", P, D).Std("t1", "p3", E, D).Std("t1", "p4", P, P, D), cancel, 1, false)
			}
		}
	}
	// shared node across types
	add(hn.NewBuilder("C shared-across-types").
		Node("f", "f", el.NodeTypeFilter, P).Node("m", "m", el.NodeTypeFormatter, P).
		Node("s1", "s1", el.NodeTypeSink, D).Node("s2", "s2", el.NodeTypeSink, D).
		Pipe("t1", "p1", "f", "m", "s1").Pipe("t2", "p1", "f", "m", "s2"), 0, 2, true)
	// no pipeline of the sent type registered any more (graph exists, empty)
	add(hn.NewBuilder("C emptied-type").Std("t1", "p1", P, D).RemovePipe("t1", "p1").Std("t2", "p1", P, D), 0, 2, true)
	// D. registration histories that produce the set
	for cancel := 0; cancel <= 1; cancel++ {
		// order permutations
		add(hn.NewBuilder("D order p2,p1").Std("t1", "p2", P, D).Std("t1", "p1", P, P, D), cancel, b1, true)
		// overwrite p1 with different nodes
		add(hn.NewBuilder("D overwrite").Std("t1", "p1", P, D).
			Node("m2", "m2", el.NodeTypeFormatter, R).Node("s2", "s2", el.NodeTypeSink, D).
			Pipe("t1", "p1", "m2", "s2"), cancel, 2, true)
		// remove + re-register
		add(hn.NewBuilder("D remove-reregister").Std("t1", "p1", P, D).RemovePipe("t1", "p1").
			Node("m2", "m2", el.NodeTypeFormatter, P).Node("s2", "s2", el.NodeTypeSink, D).
			Pipe("t1", "p1", "m2", "s2").Std("t1", "p2", E, P), cancel, b1, true)
		// re-registered node id: p1 keeps the old object, p2 (registered later) gets the new one
		add(hn.NewBuilder("D reregistered-node-id").
			Node("m.v1", "m", el.NodeTypeFormatter, P).Node("s1", "s1", el.NodeTypeSink, D).Node("s2", "s2", el.NodeTypeSink, D).
			Pipe("t1", "p1", "m", "s1").
			Node("m.v2", "m", el.NodeTypeFormatter, R).
			Pipe("t1", "p2", "m", "s2"), cancel, b1, true)
		// overwrite with the same node ids in a different order
		add(hn.NewBuilder("D overwrite-reordered").
			Node("f1", "f1", el.NodeTypeFilter, P).Node("f2", "f2", el.NodeTypeFilter, R).
			Node("m", "m", el.NodeTypeFormatter, P).Node("s", "s", el.NodeTypeSink, D).
			Pipe("t1", "p1", "f1", "f2", "m", "s").Pipe("t1", "p1", "f2", "f1", "m", "s"), cancel, 2, true)
		// rebind a node id, then re-register the pipeline with the very same id list: the new object must be used
		add(hn.NewBuilder("D rebind-then-reregister-same-ids").
			Node("m.v1", "m", el.NodeTypeFormatter, P).Node("s", "s", el.NodeTypeSink, D).
			Pipe("t1", "p1", "m", "s").
			Node("m.v2", "m", el.NodeTypeFormatter, R).
			Pipe("t1", "p1", "m", "s"), cancel, 2, true)
		// no-op removals (an id that was never registered; the same id twice) must not disturb what is registered
		add(hn.NewBuilder("D remove-unknown-id").Std("t1", "p1", P, D).RemovePipe("t1", "ghost"), cancel, 2, true)
		add(hn.NewBuilder("D remove-unknown-id, two registered").Std("t1", "p1", P, D).Std("t1", "p2", R, D).RemovePipe("t1", "ghost"), cancel, 2, true)
		add(hn.NewBuilder("D remove-twice, two remain").Std("t1", "p1", P, D).Std("t1", "p2", R, D).Std("t1", "p3", P, D).RemovePipe("t1", "p3").RemovePipe("t1", "p3"), cancel, 1, true)
		add(hn.NewBuilder("D remove-twice-then-register").Std("t1", "p1", P, D).RemovePipe("t1", "p1").RemovePipe("t1", "p1").
			Std("t1", "p2", R, D), cancel, 2, true)
		add(hn.NewBuilder("D remove-unknown-of-other-type").Std("t1", "p1", P, D).Std("t2", "p1", P, D).RemovePipe("t2", "ghost").RemovePipe("t2", "p1").RemovePipe("t2", "p1"), cancel, 2, true)
		// removal together with the nodes: what is gone receives nothing, what shared nodes with it goes on
		add(hn.NewBuilder("D remove-with-nodes").Std("t1", "p1", P, D).Std("t1", "p2", R, D).RemovePipeAndNodes("t1", "p1"), cancel, 2, true)
		add(hn.NewBuilder("D remove-with-nodes shared").
			Node("f", "f", el.NodeTypeFilter, P).Node("m", "m", el.NodeTypeFormatter, P).
			Node("s1", "s1", el.NodeTypeSink, D).Node("s2", "s2", el.NodeTypeSink, D).
			Pipe("t1", "p1", "f", "m", "s1").Pipe("t1", "p2", "f", "m", "s2").RemovePipeAndNodes("t1", "p1"), cancel, 2, true)
		// ... also when a node's Close complains: the call answers true, so the pipeline is gone
		add(hn.NewBuilder("D remove-with-nodes close-error").Std("t1", "p1", P, D).Std("t1", "p2", R, D).CloseFails("t1.p1.n1").RemovePipeAndNodes("t1", "p1"), cancel, 2, true)
		add(hn.NewBuilder("D remove-with-nodes shared close-error").
			Node("f", "f", el.NodeTypeFilter, P).Node("m", "m", el.NodeTypeFormatter, P).
			Node("s1", "s1", el.NodeTypeSink, D).Node("s2", "s2", el.NodeTypeSink, D).CloseFails("s1").
			Pipe("t1", "p1", "f", "m", "s1").Pipe("t1", "p2", "f", "m", "s2").RemovePipeAndNodes("t1", "p1"), cancel, 2, true)
		add(hn.NewBuilder("D remove-last-with-nodes").Std("t1", "p1", P, D).RemovePipeAndNodes("t1", "p1"), cancel, 2, true)
		// overwrite twice, then remove the other pipeline
		add(hn.NewBuilder("D overwrite-twice").Std("t1", "p1", P, D).Std("t1", "p2", P, D).
			Node("m3", "m3", el.NodeTypeFormatter, P).Node("s3", "s3", el.NodeTypeSink, D).
			Pipe("t1", "p1", "m3", "s3").Pipe("t1", "p1", "m3", "s3").RemovePipe("t1", "p2"), cancel, 2, true)
	}
	return out
}

func body(sc *hn.Scenario) func() string {
	return func() string {
		o := sc.Run()
		cancelled := sc.Cancel != 0
		if _, msg := sc.MatchChains(o, cancelled); msg != "" {
			vrt.Fail("%s", msg)
		}
		if o.Err == nil && len(sc.Chains) == 0 {
			_ = o
		}
		return o.Signature()
	}
}

func main() {
	hk.Main(&hk.Check{
		ID: prop,
		Scenarios: func(tier string) []string {
			var n []string
			for _, s := range scenarios(tier) {
				n = append(n, s.Name)
			}
			return n
		},
		SplitScenario: func(tier string, scn int) bool { return tier == "thorough" },
		RunJob: func(tier string, job hk.Job, deadline time.Time) *hk.Result {
			sc := scenarios(tier)[job.Scn]
			ex := &vrt.Explorer{Bound: sc.Bound, Permute: sc.Permute, Body: body(sc)}
			return hk.ExploreJob(prop, job, deadline, ex, sc.Describe())
		},
		Rule: "configurations: one pipeline with 2..5 nodes x every reachable behaviour vector over {pass, replace, drop, error, error together with an event}; two pipelines x behaviour vectors x sharing patterns (shared root / formatter+sink / root-is-inner / duplicated id); 3-4 pipelines over 1-3 event types; registration histories (order, overwrite, overwrite with the same ids reordered, rebind a node id then re-register the same id list, remove+re-register, re-registered node id); each explored over all schedules within the preemption bound and all sync.Map.Range visiting orders, with the context never cancelled, cancelled concurrently at every scheduling point, or before the call. Oracle: the recorded node invocations must decompose (brute-force matching on event-pointer identity and call/return order) into exactly one in-order traversal per registered pipeline of the sent type (a prefix of it under cancellation), with nothing left over.",
		Assumptions: []string{
			"recording nodes are harness code; they log (node, event pointer, payload pointer, returned event, error, call/return sequence numbers)",
			"preemption bound 1-2 per scenario (reported in each sample); sync.Map.Range order is an explored permutation",
		},
		QuickBudget:    300 * time.Second,
		ThoroughBudget: 40 * time.Minute,
	})
}
