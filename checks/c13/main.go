// C13 — sinks deliver exactly the bytes of their configured format, or report an error.
package main

import (
	"bytes"
	"context"
	"errors"
	"fmt"
	"os"
	"path/filepath"
	"strings"
	"time"

	el "github.com/hashicorp/eventlogger"
	"github.com/hashicorp/eventlogger/sinks/channel"
	"github.com/hashicorp/eventlogger/sinks/writer"
	"verif/hk"
	"verif/hn"
	"verif/vrt"
)

const prop = "C13"

// ---- harness writer -----------------------------------------------------------------

type recWriter struct {
	script  string // ok | err | short
	n       int
	writes  [16][]byte
	inWrite int
	overlap bool
	yield   bool
}

var errWrite = errors.New("harness: write fails")

//go:norace
func (w *recWriter) enter(p []byte) {
	if w.inWrite > 0 {
		w.overlap = true
	}
	w.inWrite++
	if w.n < len(w.writes) {
		w.writes[w.n] = append([]byte(nil), p...)
	}
	w.n++
}

//go:norace
func (w *recWriter) leave() { w.inWrite-- }

//go:norace
func (w *recWriter) snapshot() (int, [][]byte, bool) {
	out := make([][]byte, 0, w.n)
	for i := 0; i < w.n && i < len(w.writes); i++ {
		out = append(out, w.writes[i])
	}
	return w.n, out, w.overlap
}

func (w *recWriter) Write(p []byte) (int, error) {
	w.enter(p)
	if w.yield {
		vrt.Point("inside Write")
	}
	defer w.leave()
	switch w.script {
	case "err":
		return 0, errWrite
	case "short":
		return len(p) / 2, nil
	case "temp":
		// the first call takes part of the bytes and then reports a temporary error (a net.Error would);
		// later calls succeed. Whatever a sink does about it, a prefix followed by the whole is not "exactly the bytes"
		if w.n == 1 {
			return len(p) / 2, tempErr{}
		}
	}
	return len(p), nil
}

type tempErr struct{}

func (tempErr) Error() string   { return "harness: temporary write error" }
func (tempErr) Temporary() bool { return true }
func (tempErr) Timeout() bool   { return false }

var formats = []string{"json", "f1", "f2"}

// content is what a formatter stored for format f: a newline-terminated line for json, bytes without a
// trailing newline for f1, bytes with an embedded newline and NUL (and no trailing newline) for f2 - a sink
// delivers exactly these, it does not tidy them up.
func content(f string) []byte {
	switch f {
	case "f1":
		return []byte("<<f1-bytes>>")
	case "f2":
		return []byte("<<f2\x00by\ntes>>")
	}
	return []byte("<<" + f + "-bytes>>\n")
}

// stored puts content(f) into a slice with spare capacity (as an encoder's buffer has): a sink must
// not write into the room behind the bytes it was given either.
func stored(f string) []byte {
	c := content(f)
	b := make([]byte, len(c), len(c)+8)
	copy(b, c)
	return b
}

// untouched reports whether the event still holds exactly what was stored (other sinks deliver the same bytes).
func untouched(e *el.Event) string {
	for f, b := range e.Formatted {
		if !bytes.Equal(b, content(f)) {
			return fmt.Sprintf("the sink modified the bytes the event holds for format %q (now %q)", f, b)
		}
	}
	return ""
}

// ---- (a) tables ----------------------------------------------------------------------

func tableCases() []string {
	var out []string
	for mask := 0; mask < 8; mask++ {
		for _, cfgFmt := range []string{"", "json", "f1", "f2"} {
			for _, script := range []string{"ok", "err", "short", "temp"} {
				out = append(out, fmt.Sprintf("writer mask=%d fmt=%q script=%s", mask, cfgFmt, script))
			}
			for _, path := range []string{"file", "/dev/null", "/dev/stdout", "/dev/stderr", "devfull"} {
				out = append(out, fmt.Sprintf("filesink mask=%d fmt=%q path=%s", mask, cfgFmt, path))
			}
		}
	}
	out = append(out, "writer nil-writer", "writer nil-event", "writer empty-table-nil-map")
	return out
}

func eventFor(mask int) *el.Event {
	e := &el.Event{Type: "t", Formatted: map[string][]byte{}}
	for i, f := range formats {
		if mask&(1<<i) != 0 {
			e.FormattedAs(f, stored(f))
		}
	}
	return e
}

func runTable(name string, scratch string) string {
	var kind, cfgFmt, script, path string
	var mask int
	switch {
	case name == "writer nil-writer":
		s := &writer.Sink{}
		if _, err := s.Process(context.Background(), eventFor(1)); err == nil {
			return "writer.Sink with a nil Writer reported success"
		}
		return ""
	case name == "writer nil-event":
		s := &writer.Sink{Writer: &recWriter{script: "ok"}}
		if _, err := s.Process(context.Background(), nil); err == nil {
			return "writer.Sink reported success for a nil event"
		}
		return ""
	case name == "writer empty-table-nil-map":
		w := &recWriter{script: "ok"}
		s := &writer.Sink{Writer: w}
		if _, err := s.Process(context.Background(), &el.Event{Type: "t"}); err == nil || w.n != 0 {
			return "writer.Sink reported success / wrote for an event with no format table"
		}
		return ""
	case strings.HasPrefix(name, "writer"):
		fmt.Sscanf(name, "writer mask=%d fmt=%q script=%s", &mask, &cfgFmt, &script)
		kind = "writer"
	default:
		fmt.Sscanf(name, "filesink mask=%d fmt=%q path=%s", &mask, &cfgFmt, &path)
		kind = "filesink"
	}
	eff := cfgFmt
	if eff == "" {
		eff = "json"
	}
	has := false
	for i, f := range formats {
		if f == eff && mask&(1<<i) != 0 {
			has = true
		}
	}
	e := eventFor(mask)
	if kind == "writer" {
		w := &recWriter{script: script}
		s := &writer.Sink{Writer: w, Format: cfgFmt}
		out, err := s.Process(context.Background(), e)
		n, writes, _ := w.snapshot()
		wantOK := has && script == "ok"
		if script == "temp" && has {
			// the sink may report the error, or retry - but then the writer must have received, in total, exactly
			// the bytes once: a retry that starts over after a partial write has written a prefix twice
			if err == nil {
				// what the writer holds: the accepted half of the first call, then everything it was given later
				held := append([]byte(nil), writes[0][:len(writes[0])/2]...)
				for _, wr := range writes[1:] {
					held = append(held, wr...)
				}
				if !bytes.Equal(held, content(eff)) {
					return fmt.Sprintf("writer.Sink reported success after a partial write that ended in a temporary error, but the writer now holds %q, not exactly %q", held, content(eff))
				}
			}
			return untouched(e)
		}
		if (err == nil) != wantOK {
			return fmt.Sprintf("writer.Sink: err=%v, want success=%v (format %q present=%v, writer %s)", err, wantOK, eff, has, script)
		}
		if out != nil {
			return "writer.Sink returned an event (sinks are leaves)"
		}
		if !has && n != 0 {
			return fmt.Sprintf("writer.Sink wrote %d time(s) although the event carries no bytes for format %q", n, eff)
		}
		if has && (n != 1 || !bytes.Equal(writes[0], content(eff))) {
			return fmt.Sprintf("writer.Sink made %d write(s) %q; exactly one write of %q expected", n, writes, content(eff))
		}
		return untouched(e)
	}
	// FileSink
	dir, _ := os.MkdirTemp(scratch, "c13")
	defer os.RemoveAll(dir)
	fs := &el.FileSink{Path: filepath.Join(dir, "d"), FileName: "out.log", Format: cfgFmt}
	var capture *os.File
	var capPath string
	switch path {
	case "/dev/null":
		fs.Path = "/dev/null"
	case "devfull":
		// the active file is a symbolic link to /dev/full: every write fails with ENOSPC
		os.MkdirAll(filepath.Join(dir, "d"), 0o755)
		if err := os.Symlink("/dev/full", filepath.Join(dir, "d", "out.log")); err != nil {
			return "harness: " + err.Error()
		}
	case "/dev/stdout", "/dev/stderr":
		fs.Path = path
		capPath = filepath.Join(dir, "captured")
		capture, _ = os.Create(capPath)
		if path == "/dev/stdout" {
			old := os.Stdout
			os.Stdout = capture
			defer func() { os.Stdout = old }()
		} else {
			old := os.Stderr
			os.Stderr = capture
			defer func() { os.Stderr = old }()
		}
	}
	out, err := fs.Process(context.Background(), e)
	if capture != nil {
		capture.Close()
	}
	if out != nil {
		return "FileSink returned an event (sinks are leaves)"
	}
	if path == "/dev/null" {
		if err != nil {
			return fmt.Sprintf("FileSink on /dev/null must be a pass-through success, got %v", err)
		}
		return ""
	}
	if path == "devfull" {
		if err == nil {
			return "FileSink reported success although every write to the underlying file fails (ENOSPC on the first attempt and on the retry)"
		}
		return ""
	}
	if (err == nil) != has {
		return fmt.Sprintf("FileSink(%s): err=%v, want success=%v (format %q present=%v)", path, err, has, eff, has)
	}
	var got []byte
	if capPath != "" {
		got, _ = os.ReadFile(capPath)
	} else {
		got, _ = os.ReadFile(filepath.Join(dir, "d", "out.log"))
	}
	want := []byte{}
	if has {
		want = content(eff)
	}
	if !bytes.Equal(got, want) {
		return fmt.Sprintf("FileSink(%s) delivered %q, want exactly %q", path, got, want)
	}
	return untouched(e)
}

// ---- (b) concurrent Process on one writer.Sink ---------------------------------------

type concW struct {
	Name    string
	Threads int
	Bound   int
}

func concWriters(tier string) []concW {
	out := []concW{{Threads: 2, Bound: -1}, {Threads: 3, Bound: 3}}
	if tier == "thorough" {
		out = append(out, concW{Threads: 3, Bound: -1}, concW{Threads: 4, Bound: 2})
	}
	for i := range out {
		out[i].Name = fmt.Sprintf("writer.Sink: %d concurrent Process calls, scheduling point inside Write (bound %d, -1=unbounded)", out[i].Threads, out[i].Bound)
	}
	return out
}

func concWBody(c concW) func() string {
	return func() string {
		w := &recWriter{script: "ok", yield: true}
		s := &writer.Sink{Writer: w}
		for i := 0; i < c.Threads; i++ {
			i := i
			vrt.GoNamed(fmt.Sprintf("p%d", i), func() {
				e := &el.Event{Type: "t", Formatted: map[string][]byte{"json": []byte(fmt.Sprintf("event-%d\n", i))}}
				if _, err := s.Process(context.Background(), e); err != nil {
					vrt.Fail("Process %d failed: %v", i, err)
				}
			})
		}
		vrt.Join()
		n, writes, overlap := w.snapshot()
		if overlap {
			vrt.Fail("two Process calls were inside the underlying Write at the same time: writes are not contiguous")
		}
		if n != c.Threads {
			vrt.Fail("%d writes for %d successful Process calls", n, c.Threads)
		}
		seen := map[string]bool{}
		order := ""
		for _, b := range writes {
			if seen[string(b)] {
				vrt.Fail("event %q written twice", b)
			}
			seen[string(b)] = true
			order += string(b[6:7])
		}
		return order
	}
}

// ---- (c) ChannelSink ---------------------------------------------------------------------

type chanSc struct {
	Procs    int // concurrent Process calls (default 1)
	Name     string
	Cap      int
	Prefill  bool
	Consumer string // none | recv | late
	Cancel   bool
	Timer    bool
	Deadline bool // the caller's context additionally carries a (far) deadline of its own
}

func chanScenarios() []chanSc {
	var out []chanSc
	for _, cp := range []int{0, 1} {
		for _, pre := range []bool{false, true} {
			if pre && cp == 0 {
				continue
			}
			for _, cons := range []string{"none", "recv"} {
				for _, cancel := range []bool{false, true} {
					for _, timer := range []bool{false, true} {
						if !cancel && !timer && (cons == "none") && (cp == 0 || pre) {
							continue // nothing can ever unblock Process: outside the property (it may block until the shorter of timeout/ctx, which never come)
						}
						out = append(out, chanSc{Cap: cp, Prefill: pre, Consumer: cons, Cancel: cancel, Timer: timer})
					}
				}
			}
		}
	}
	// two overlapping Process calls on one sink (a sink is shared by every Send)
	for _, cp := range []int{0, 1} {
		out = append(out,
			chanSc{Procs: 2, Cap: cp, Prefill: cp == 1, Consumer: "none", Timer: true},
			chanSc{Procs: 2, Cap: cp, Prefill: cp == 1, Consumer: "none", Cancel: true},
			chanSc{Procs: 2, Cap: cp, Prefill: false, Consumer: "recv", Timer: true})
	}
	// every scenario again with a context that has a deadline far beyond the sink's timeout: an explicit
	// cancel still ends the wait, and the timeout is still the sink's
	for _, c := range append([]chanSc(nil), out...) {
		c.Deadline = true
		out = append(out, c)
	}
	for i := range out {
		c := &out[i]
		if c.Procs == 0 {
			c.Procs = 1
		}
		c.Name = fmt.Sprintf("ChannelSink cap=%d prefilled=%v consumer=%s cancel-thread=%v timer-thread=%v concurrent-Process-calls=%d ctx-has-deadline=%v", c.Cap, c.Prefill, c.Consumer, c.Cancel, c.Timer, c.Procs, c.Deadline)
	}
	return out
}

// armedT lets the timer thread wait until every Process call has armed its
// timeout - or has already returned (an implementation may stop its timer on return).
type armedT struct{ need, returned int }

//go:norace
func (a *armedT) ready() bool { return vrt.PendingTimers() > 0 || a.returned >= a.need }

//go:norace
func (a *armedT) allReturned() bool { return a.returned >= a.need }

//go:norace
func (a *armedT) done() { a.returned++ }

//go:norace
func (a *armedT) reset(n int) { a.need, a.returned = n, 0 }

var armed = &armedT{}

type flags struct{ cancelled, fired bool }

//go:norace
func (f *flags) set(which int) {
	if which == 0 {
		f.cancelled = true
	} else {
		f.fired = true
	}
}

//go:norace
func (f *flags) get() (bool, bool) { return f.cancelled, f.fired }

func chanBody(c chanSc) func() string {
	return func() string {
		ch := make(chan *el.Event, c.Cap)
		filler := &el.Event{Type: "filler"}
		if c.Prefill {
			vrt.Send(ch, filler)
		}
		const timeout = 50 * time.Millisecond
		sink, err := channel.NewChannelSink(ch, timeout)
		if err != nil {
			vrt.Fail("NewChannelSink: %v", err)
		}
		ctx, cancel := context.WithCancel(context.Background())
		if c.Deadline {
			// real-clock deadline an hour away: it never fires during an execution
			ctx, cancel = context.WithDeadline(context.Background(), time.Now().Add(time.Hour))
		}
		defer cancel()
		fl := &flags{}
		var got [4]*el.Event
		ngot := 0
		if c.Consumer == "recv" {
			vrt.GoNamed("consumer", func() {
				rounds := 1
				if c.Prefill {
					rounds = 2
				}
				for i := 0; i < rounds; i++ {
					k := vrt.CaseRecv(ch)
					kd := vrt.CaseRecv(ctx.Done())
					// the consumer gives up when the context is cancelled so it never outlives the scenario
					if vrt.Select(false, k, kd) != 0 {
						return
					}
					got[ngot] = k.V
					ngot++
				}
			})
		}
		if c.Cancel {
			vrt.GoNamed("canceller", func() { fl.set(0); cancel() })
		}
		if c.Timer {
			vrt.GoNamed("timer", func() {
				// time keeps passing: whenever a timeout is armed it eventually
				// elapses, until every Process call has returned
				for i := 0; i <= c.Procs; i++ {
					vrt.WaitUntil("a timer is armed or all calls returned", armed.ready)
					if armed.allReturned() {
						return
					}
					fl.set(1)
					vrt.AdvanceClock(int64(timeout))
				}
			})
		}
		// the events carry format tables of 2 and 1 entries (a sink sits behind formatters); the filler has none
		e := &el.Event{Type: "t", Payload: "x", Formatted: map[string][]byte{"json": []byte("{\"x\":1}\n"), "f1": []byte("x")}}
		e2 := &el.Event{Type: "t", Payload: "y", Formatted: map[string][]byte{"json": []byte("{\"y\":1}\n")}}
		var out2 *el.Event
		var perr2 error
		var c2, f2 bool
		armed.reset(c.Procs)
		p2done := &vrt.Gate{}
		if c.Procs == 2 {
			vrt.GoNamed("process2", func() {
				out2, perr2 = sink.Process(ctx, e2)
				armed.done()
				c2, f2 = fl.get()
				p2done.Open()
			})
		}
		out, perr := sink.Process(ctx, e)
		armed.done()
		cancelledAtReturn, firedAtReturn := fl.get()
		if c.Procs == 2 {
			p2done.Wait() // the clean-up cancel below must not be what unblocks the second call
		}
		cancel() // release a consumer that is still waiting
		vrt.Join()
		if out != nil {
			vrt.Fail("ChannelSink returned an event (sinks are leaves)")
		}
		delivered, delivered2 := 0, 0
		for i := 0; i < ngot; i++ {
			if got[i] == e {
				delivered++
			} else if got[i] == e2 {
				delivered2++
			} else if got[i] != filler {
				vrt.Fail("the consumer received an event that is neither the filler nor the very event given to Process")
			}
		}
		// what is still buffered counts as handed to the channel
		for {
			k := vrt.CaseRecv(ch)
			if vrt.Select(true, k) != 0 {
				break
			}
			if k.V == e {
				delivered++
			}
			if k.V == e2 {
				delivered2++
			}
		}
		if c.Procs == 2 {
			if out2 != nil {
				vrt.Fail("ChannelSink returned an event (sinks are leaves)")
			}
			if perr2 == nil && delivered2 != 1 {
				vrt.Fail("second Process reported success but its event was handed to the channel %d time(s)", delivered2)
			}
			if perr2 != nil && delivered2 != 0 {
				vrt.Fail("second Process reported an error (%v) but its event was handed to the channel as well", perr2)
			}
			if perr2 != nil && !c2 && !f2 {
				vrt.Fail("second Process reported an error (%v) although neither the timeout had elapsed nor the context was done", perr2)
			}
		}
		if perr == nil && delivered != 1 {
			vrt.Fail("Process reported success but the event was handed to the channel %d time(s)", delivered)
		}
		if perr != nil && delivered != 0 {
			vrt.Fail("Process reported an error (%v) but the event was handed to the channel as well", perr)
		}
		if perr != nil && !cancelledAtReturn && !firedAtReturn {
			vrt.Fail("Process reported an error (%v) although neither the timeout had elapsed nor the context was done", perr)
		}
		if perr != nil && errors.Is(perr, context.Canceled) && !cancelledAtReturn {
			vrt.Fail("Process returned context.Canceled before the context was cancelled")
		}
		return fmt.Sprintf("err=%v delivered=%d", perr != nil, delivered)
	}
}

func main() {
	tables := tableCases()
	hk.Main(&hk.Check{
		ID: prop,
		Scenarios: func(tier string) []string {
			n := []string{"format tables (writer.Sink, FileSink)"}
			for _, c := range concWriters(tier) {
				n = append(n, c.Name)
			}
			for _, c := range hn.FSConcScenarios(tier) {
				n = append(n, c.Name)
			}
			for _, c := range chanScenarios() {
				n = append(n, c.Name)
			}
			return n
		},
		RunJob: func(tier string, job hk.Job, deadline time.Time) *hk.Result {
			scratch := os.Getenv("VERIF_SCRATCH")
			os.MkdirAll(scratch, 0o755)
			cw := concWriters(tier)
			fc := hn.FSConcScenarios(tier)
			switch {
			case job.Scn == 0:
				res := &hk.Result{}
				for _, name := range tables {
					v := runTable(name, scratch)
					res.Add("execs", 1)
					res.Add("steps", 1)
					res.Add("nodes", 1)
					if v != "" {
						res.Violations = append(res.Violations, hk.Viol{Name: name, Kind: "oracle", Detail: name + ": " + v})
						return res
					}
					res.Outcome(name)
				}
				res.Samples = append(res.Samples, tables[5], tables[9])
				return res
			case job.Scn <= len(cw):
				c := cw[job.Scn-1]
				ex := &vrt.Explorer{Bound: c.Bound, Body: concWBody(c)}
				return hk.ExploreJob(prop, job, deadline, ex, c.Name)
			case job.Scn <= len(cw)+len(fc):
				c := fc[job.Scn-1-len(cw)]
				ex := &vrt.Explorer{Bound: c.Bound, Body: c.Body(scratch)}
				return hk.ExploreJob(prop, job, deadline, ex, c.Name)
			default:
				c := chanScenarios()[job.Scn-1-len(cw)-len(fc)]
				ex := &vrt.Explorer{Bound: -1, Body: chanBody(c)}
				return hk.ExploreJob(prop, job, deadline, ex, c.Name)
			}
		},
		Rule: "(a) all format tables over {json, f1, f2} (8) x configured format {unset, json, f1, f2} x harness writer {ok, failing, short write} for writer.Sink, and x {real file, /dev/null, /dev/stdout, /dev/stderr (os.Stdout/Stderr swapped for files), a file that is a symbolic link to /dev/full so that every write fails} for FileSink, plus nil writer / nil event / missing table: success iff the configured format's bytes exist and the write succeeds, then exactly one write of exactly those bytes. (b) 2-4 concurrent Process calls on one writer.Sink with a scheduling point inside the underlying Write, all interleavings (unbounded for 2, and 3 in thorough): never two calls inside Write at once, one write per call; the concurrent FileSink scenarios of C08 under the race detector. (c) ChannelSink: all interleavings and select-arm choices of {Process, consumer, cancel thread, timer thread} for unbuffered / buffered (empty, full) channels, also with two overlapping Process calls on the one sink: success iff the very event reached the channel exactly once, error only once the timeout elapsed or the context was done, and Process never stays blocked (deadlock verdict).",
		Assumptions: []string{
			"FileSink write faults are injected through a symbolic link to /dev/full (persistent ENOSPC); a fault on the first write followed by a successful retry is not reachable this way and is not covered",
			"timeouts are modelled timers fired by a harness thread (virtual clock); 'never blocking longer than the shorter of the two' = once the timer fired or the context is done Process returns without any other thread's help",
		},
		QuickBudget:    300 * time.Second,
		ThoroughBudget: 30 * time.Minute,
	})
}
