package main

import (
	"time"

	"verif/hk"
)

const rule = "payload shapes from an explicit grammar, every derivation: a spine of 1..3 (4 thorough) containers {struct value, *struct, []struct, []*struct, map[string]interface{}, map[string]string, Taggable map, Taggable struct, []Taggable map} ending in a leaf {string, []byte, []string, [][]byte, *wrapperspb.StringValue, *wrapperspb.BytesValue} carrying every class tag {none, public, sensitive, secret, each x redact/encrypt/hmac-sha256, unknown class, unknown operation, upper-case spellings} (full tag set at depth 1, a 6-tag cover deeper) or every Taggable key class, with optionally one sibling before or after the spine element at one level (tagged leaf, untagged leaf, untagged map, Taggable map, nested struct): 73k shapes run with the default operations; all shapes of depth <=2 x all 64 override maps over {public, sensitive, secret} x {none, redact, encrypt, hmac} x wrapper {present, absent, failing at its 1st / 2nd call}: 2.3M cases; plus top-level strings/slices, unsettable, nil and zero payloads and the 8 rotation payloads. Types are built at run time (reflect.StructOf with class tags); every leaf carries a unique canary. Oracle from the shape descriptor only (reference classifier written from the package documentation): the input event and payload are deep-equal to a pristine twin built from the same descriptor after Process returns (the filter worked on a private copy); the output payload has the same dynamic type, every leaf is still reachable along the same path with the same kind (container lengths and keys preserved), every public value is unchanged; with every operation overridden to none, or a nil or zero payload, the very same event is returned."

var assumptions = []string{
	"the pristine twin is rebuilt from the descriptor, so equality needs no copy routine shared with the filter",
	"a public key of a Taggable inside a payload passed as a struct by value (not settable: finding S13) is swept like an untagged map; that is counted as over-redaction, not judged by this property",
}

func extraScenarios(tier string) []string { return nil }

func runExtra(tier string, i int, job hk.Job, deadline time.Time) *hk.Result { return &hk.Result{} }
