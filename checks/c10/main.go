// C10 — encrypt.Filter (copy oracle over the shared shape enumeration).
package main

import (
	"fmt"
	"time"

	"verif/hk"
	"verif/shapes"
)

const prop = "C10"
const cls = "copy"

func main() {
	hk.Main(&hk.Check{
		ID: prop,
		Scenarios: func(tier string) []string {
			ph := shapes.Phases(tier)
			var n []string
			for _, j := range shapes.JobSpecs(tier) {
				n = append(n, fmt.Sprintf("%s chunk %d/%d", ph[j.Phase].Name, j.Chunk, ph[j.Phase].Chunks))
			}
			n = append(n, "special payloads")
			n = append(n, extraScenarios(tier)...)
			return n
		},
		RunJob: func(tier string, job hk.Job, deadline time.Time) *hk.Result {
			js := shapes.JobSpecs(tier)
			var r *hk.Result
			switch {
			case job.Scn < len(js):
				r = shapes.RunJob(prop, cls, tier, js[job.Scn], deadline)
			case job.Scn == len(js):
				r = shapes.Specials(prop, cls)
			default:
				r = runExtra(tier, job.Scn-len(js)-1, job, deadline)
			}
			for i := range r.Violations {
				r.Violations[i].Scn = job.Scn
			}
			return r
		},
		Rule:        rule,
		Assumptions: assumptions,
		QuickBudget: 300 * time.Second, ThoroughBudget: 45 * time.Minute,
	})
}
