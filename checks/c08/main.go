// C08 — FileSink never loses, duplicates, reorders or tears an acknowledged event.
package main

import (
	"encoding/json"
	"fmt"
	"os"
	"strings"
	"time"

	"verif/vrt"

	"verif/hk"
	"verif/hn"
)

const prop = "C08"

func main() {
	hk.Main(&hk.Check{
		ID: prop,
		Scenarios: func(tier string) []string {
			var n []string
			cfgs := hn.FSConfigs(tier)
			for _, j := range hn.FSJobList(tier) {
				if j.Long {
					n = append(n, fmt.Sprintf("%s long histories over %v", cfgs[j.Cfg], hn.FSLongOps(cfgs[j.Cfg])))
					continue
				}
				n = append(n, fmt.Sprintf("%s first=%s", cfgs[j.Cfg], hn.FSOps(cfgs[j.Cfg])[j.First]))
			}
			for _, c := range hn.FSConcScenarios(tier) {
				n = append(n, c.Name)
			}
			return n
		},
		SplitScenario: func(tier string, scn int) bool { return scn >= len(hn.FSJobList(tier)) },
		RunJob: func(tier string, job hk.Job, deadline time.Time) *hk.Result {
			if nj := len(hn.FSJobList(tier)); job.Scn >= nj {
				sc := hn.FSConcScenarios(tier)[job.Scn-nj]
				scratch := os.Getenv("VERIF_SCRATCH")
				os.MkdirAll(scratch, 0o755)
				ex := &vrt.Explorer{Bound: sc.Bound, Body: sc.Body(scratch)}
				return hk.ExploreJob(prop, job, deadline, ex, sc.Name)
			}
			j := hn.FSJobList(tier)[job.Scn]
			var replay []string
			if strings.HasPrefix(job.Arg, "replay:") {
				json.Unmarshal([]byte(strings.TrimPrefix(job.Arg, "replay:")), &replay)
			}
			r := hn.FSRunJob(tier, j, false, deadline, replay)
			for i := range r.Violations {
				r.Violations[i].Scn = job.Scn
			}
			return r
		},
		Rule: "every operation history of length 4 (quick) / 5 (thorough) over {write of 1, MaxBytes-1, MaxBytes, MaxBytes+1, 200 bytes with unique content; Reopen; external rename of the active file followed by Reopen; clock +1ns; clock +31ms} plus every history of length 6 (7) over the reduced alphabet {1 byte, MaxBytes+1 bytes, Reopen, +31ms} (files pile up over several Reopens before retention runs), for each of 128 configurations (MaxBytes 0/8/64/300 x MaxFiles 0..3 x MaxDuration 0/30ms x TimestampOnlyOnRotate x default mode and fresh directory / mode 0640 with a pre-existing file and bystanders) on the real FileSink over a real directory with the virtual clock. Oracle at every file-system call the sink makes (= every state a SIGKILL can leave) and after every step: the sink's files read oldest to newest (identities tracked through the sink's own renames/removals) concatenate to exactly the acknowledged events; files vanish only through the sink's own retention; bystander files survive. Concurrent part: 2-3 writer threads and a Reopen thread on one sink (MaxBytes=8 so rotations interleave), every schedule within the preemption bound: the files parse into whole acknowledged events, each once, in an order consistent with the calls' real-time order.",
		Assumptions: []string{
			"kill model: each effect of the sink is one system call and an append of <=200 bytes to a regular file is not torn by SIGKILL, so the states between consecutive calls are all the crash states",
			"concurrent scenarios: <=3 writers + 1 Reopen thread, preemption bound 1-3; 8 writers of the statement are not reached",
			"write errors are outside this property's quantifier",
		},
		QuickBudget:    150 * time.Second,
		ThoroughBudget: 45 * time.Minute,
	})
}
