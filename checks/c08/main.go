// C08 — FileSink never loses, duplicates, reorders or tears an acknowledged event.
package main

import (
	"context"
	"encoding/json"
	"fmt"
	"os"
	"os/exec"
	"path/filepath"
	"strings"
	"time"

	el "github.com/hashicorp/eventlogger"

	"verif/vrt"

	"verif/hk"
	"verif/hn"
)

const prop = "C08"

// writeFault: every write to the active file fails (ENOSPC); an event that is
// acknowledged must nevertheless be present somewhere, so Process must not succeed.
func writeFault(job hk.Job) *hk.Result {
	res := &hk.Result{}
	scratch := os.Getenv("VERIF_SCRATCH")
	os.MkdirAll(scratch, 0o755)
	for _, ts := range []bool{false, true} {
		for _, pre := range []int{0, 2} {
			dir, _ := os.MkdirTemp(scratch, "wf")
			sub := filepath.Join(dir, "logs")
			fs := &el.FileSink{Path: sub, FileName: "audit.log", TimestampOnlyOnRotate: ts}
			e := func(s string) *el.Event {
				return &el.Event{Type: "t", Formatted: map[string][]byte{el.JSONFormat: []byte(s)}}
			}
			acked := 0
			for i := 0; i < pre; i++ {
				if _, err := fs.Process(context.Background(), e("good\n")); err == nil {
					acked++
				}
			}
			// swap the active file for a link to /dev/full and make the sink reopen it
			os.MkdirAll(sub, 0o755)
			os.Remove(filepath.Join(sub, "audit.log"))
			os.Symlink("/dev/full", filepath.Join(sub, "audit.log"))
			fs.Reopen()
			_, err := fs.Process(context.Background(), e("lost-event\n"))
			res.Add("execs", 1)
			res.Add("steps", int64(pre+2))
			res.Add("nodes", 1)
			res.Outcome(fmt.Sprintf("write-fault ts=%v pre=%d err=%v", ts, pre, err != nil))
			if err == nil {
				res.Violations = append(res.Violations, hk.Viol{Scn: job.Scn, Name: "write fault", Kind: "oracle",
					Detail: fmt.Sprintf("Process acknowledged an event although every write to the active file failed (ENOSPC, first attempt and retry): the acknowledged event is in no file (TimestampOnlyOnRotate=%v, %d earlier events)", ts, pre)})
			}
			os.RemoveAll(dir)
		}
	}
	return res
}

// straced: the kill model assumes one write(2) per acknowledged event. The
// thorough tier cross-checks that on the real sink with strace: a child process
// writes events of known sizes through rotations and the trace must show exactly
// one write system call of exactly that size per event on the log files.
func stracedChild(dir string) {
	fs := &el.FileSink{Path: dir, FileName: "audit.log", MaxBytes: 40, TimestampOnlyOnRotate: true}
	for i := 0; i < 6; i++ {
		b := []byte(strings.Repeat(string(rune('a'+i)), 20+i) + "\n")
		if _, err := fs.Process(context.Background(), &el.Event{Type: "t", Formatted: map[string][]byte{el.JSONFormat: b}}); err != nil {
			fmt.Println("child: Process failed:", err)
			os.Exit(3)
		}
		if i == 3 {
			fs.Reopen()
		}
	}
}

func straceCheck(job hk.Job) *hk.Result {
	res := &hk.Result{}
	scratch := os.Getenv("VERIF_SCRATCH")
	os.MkdirAll(scratch, 0o755)
	dir, _ := os.MkdirTemp(scratch, "st")
	defer os.RemoveAll(dir)
	trace := filepath.Join(dir, "trace.txt")
	logs := filepath.Join(dir, "logs")
	cmd := exec.Command("strace", "-f", "-e", "trace=write", "-o", trace, os.Args[0], "-straced", logs)
	out, err := cmd.CombinedOutput()
	res.Add("execs", 1)
	res.Add("steps", 6)
	res.Add("nodes", 1)
	if err != nil {
		// strace unavailable / ptrace forbidden: the assumption stays an assumption
		res.Outcome("strace unavailable: " + strings.TrimSpace(string(out)))
		res.Add("strace_unavailable", 1)
		return res
	}
	b, _ := os.ReadFile(trace)
	sizes := map[int]int{}
	for _, line := range strings.Split(string(b), "\n") {
		if !strings.Contains(line, "write(") || strings.Contains(line, "write(1,") || strings.Contains(line, "write(2,") {
			continue
		}
		i := strings.LastIndex(line, "= ")
		if i < 0 {
			continue
		}
		var n int
		fmt.Sscanf(line[i+2:], "%d", &n)
		sizes[n]++
	}
	for i := 0; i < 6; i++ {
		want := 21 + i
		if sizes[want] != 1 {
			res.Violations = append(res.Violations, hk.Viol{Scn: job.Scn, Name: "strace cross-check", Kind: "oracle",
				Detail: fmt.Sprintf("the kill model assumes one write(2) per acknowledged event, but the trace shows %d write call(s) of %d bytes for event %d (write sizes seen: %v)", sizes[want], want, i, sizes)})
			return res
		}
	}
	res.Outcome("strace: one write(2) of the exact size per acknowledged event")
	res.Add("strace_crosscheck_events_confirmed", 6)
	return res
}

func main() {
	if len(os.Args) == 3 && os.Args[1] == "-straced" {
		stracedChild(os.Args[2])
		return
	}
	hk.Main(&hk.Check{
		ID: prop,
		Scenarios: func(tier string) []string {
			var n []string
			cfgs := hn.FSConfigs(tier)
			for _, j := range hn.FSJobList(tier) {
				if j.Long {
					n = append(n, fmt.Sprintf("%s long histories over %v", cfgs[j.Cfg], j.LongOps(cfgs[j.Cfg])))
					continue
				}
				n = append(n, fmt.Sprintf("%s first=%s", cfgs[j.Cfg], hn.FSOps(cfgs[j.Cfg])[j.First]))
			}
			for _, c := range hn.FSConcScenarios(tier) {
				n = append(n, c.Name)
			}
			n = append(n, "persistent write fault (active file is a symbolic link to /dev/full)")
			n = append(n, "strace cross-check of the kill model: one write(2) per acknowledged event")
			return n
		},
		SplitScenario: func(tier string, scn int) bool { return scn >= len(hn.FSJobList(tier)) },
		RunJob: func(tier string, job hk.Job, deadline time.Time) *hk.Result {
			if nj := len(hn.FSJobList(tier)); job.Scn == nj+len(hn.FSConcScenarios(tier)) {
				return writeFault(job)
			}
			if nj := len(hn.FSJobList(tier)); job.Scn == nj+len(hn.FSConcScenarios(tier))+1 {
				return straceCheck(job)
			}
			if nj := len(hn.FSJobList(tier)); job.Scn >= nj {
				sc := hn.FSConcScenarios(tier)[job.Scn-nj]
				scratch := os.Getenv("VERIF_SCRATCH")
				os.MkdirAll(scratch, 0o755)
				ex := &vrt.Explorer{Bound: sc.Bound, Body: sc.Body(scratch)}
				return hk.ExploreJob(prop, job, deadline, ex, sc.Name)
			}
			j := hn.FSJobList(tier)[job.Scn]
			var replay []string
			if strings.HasPrefix(job.Arg, "replay:") {
				json.Unmarshal([]byte(strings.TrimPrefix(job.Arg, "replay:")), &replay)
			}
			r := hn.FSRunJob(tier, j, false, deadline, replay)
			for i := range r.Violations {
				r.Violations[i].Scn = job.Scn
			}
			return r
		},
		Rule: "every operation history of length 4 (quick) / 5 (thorough) over {write of 1, MaxBytes-1, MaxBytes, MaxBytes+1, 200 bytes with unique content; Reopen; external rename of the active file followed by Reopen; clock +1ns; clock +31ms} plus every history of length 6 (7) over the reduced alphabet {1 byte, MaxBytes+1 bytes, Reopen, +31ms} (files pile up over several Reopens before retention runs), for each of 128 configurations (MaxBytes 0/8/64/300 x MaxFiles 0..3 x MaxDuration 0/30ms x TimestampOnlyOnRotate x default mode and fresh directory / mode 0666 under umask 022 with a pre-existing file and bystanders) on the real FileSink over a real directory with the virtual clock. Oracle at every file-system call the sink makes (= every state a SIGKILL can leave) and after every step: the sink's files read oldest to newest (identities tracked through the sink's own renames/removals) concatenate to exactly the acknowledged events; files vanish only through the sink's own retention; bystander files survive. Concurrent part: 2-3 writer threads and a Reopen thread on one sink (MaxBytes=8 so rotations interleave), every schedule within the preemption bound: the files parse into whole acknowledged events, each once, in an order consistent with the calls' real-time order.",
		Assumptions: []string{
			"kill model: each effect of the sink is one system call and an append of <=200 bytes to a regular file is not torn by SIGKILL, so the states between consecutive calls are all the crash states; 'one write(2) of the exact size per acknowledged event' is cross-checked with strace on a child process (skipped with a note if ptrace is not permitted)",
			"concurrent scenarios: <=3 writers + 1 Reopen thread, preemption bound 1-3; 8 writers of the statement are not reached",
			"write faults: only the persistent one (symbolic link to /dev/full) is injected: an acknowledged event must be present, so Process must not succeed when nothing could be written",
		},
		QuickBudget:    300 * time.Second,
		ThoroughBudget: 45 * time.Minute,
	})
}
