// C17 — gated events do not linger: expiry, FlushAll and Close empty the gate.
package main

import (
	"context"
	"fmt"
	"time"

	el "github.com/hashicorp/eventlogger"
	"verif/vrt"

	"verif/hk"
	"verif/hn"
	"verif/seqmc"
)

const prop = "C17"

func cfgs() []hn.GateCfg {
	out := []hn.GateCfg{
		{Broker: true, IDs: []string{"a", "b", "c"}},
		{Broker: false, IDs: []string{"a", "b", "c"}},
		{Broker: true, IDs: []string{"a", "b", "c", "d", "e"}},
		{Broker: false, IDs: []string{"a", "b", "c", "d", "e"}},
		// a sweep, FlushAll or Close that fails part-way (the Broker's Send or the composition fails at its
		// k-th call) and is then retried: what was already emitted must not be emitted again
		{Broker: true, SendFail: 1, IDs: []string{"a", "b", "c"}},
		{Broker: true, SendFail: 2, IDs: []string{"a", "b", "c"}},
		{Broker: true, ComposeFail: 2, IDs: []string{"a", "b", "c"}},
	}
	for i := range out {
		out[i].Name = fmt.Sprintf("broker=%v ids=%d sendFail@%d composeFail@%d", out[i].Broker, len(out[i].IDs), out[i].SendFail, out[i].ComposeFail)
	}
	return out
}

func alphabet(c hn.GateCfg) []string {
	var a []string
	for _, id := range c.IDs {
		a = append(a, "ev "+id)
	}
	if len(c.IDs) <= 3 {
		for _, id := range c.IDs {
			a = append(a, "ev "+id+" flush")
		}
		a = append(a, "nongate", "evx a")
	}
	return append(a, "tick", "half", "expire", "flushall", "close")
}

var harness = &seqmc.Harness{
	Property: prop,
	Configs: func(tier string) []seqmc.Config {
		d := 6
		if tier == "thorough" {
			d = 8
		}
		var out []seqmc.Config
		for _, c := range cfgs() {
			out = append(out, seqmc.Config{Name: c.Name, Alphabet: alphabet(c), Depth: d})
		}
		return out
	},
	New: func(tier string, cfg int) seqmc.Instance { return hn.NewGateInst(cfgs()[cfg], true) },
}

// ---- concurrent part: two senders and a moving clock ---------------------------------

type conc struct {
	Name   string
	Broker bool
	Bound  int
	Flush  bool // the FlushAll / flush event / Close scenario
}

func concScenarios(tier string) []conc {
	b := 3
	if tier == "thorough" {
		b = 4
	}
	out := []conc{{Broker: true, Bound: b}, {Broker: false, Bound: b}}
	for i := range out {
		out[i].Name = fmt.Sprintf("concurrent: Process(a) || Process(b) || clock +600ms, then Process(c) at +1.3s (Broker=%v)", out[i].Broker)
	}
	// FlushAll racing with a flush event and with Close: every gated event is emitted exactly once
	out = append(out, conc{Name: "concurrent: groups a,b pending; FlushAll || Process(flush a) || Close (Broker=true)", Broker: true, Bound: b - 1, Flush: true})
	return out
}

type clockStep struct{ c *hn.Clock }

//go:norace
func (s clockStep) advance(d time.Duration) { s.c.Advance(d) }

func flushBody(c conc) func() string {
	return func() string {
		g := hn.NewGateInst(hn.GateCfg{Broker: c.Broker, IDs: []string{"a", "b"}}, true)
		ctx := context.Background()
		mk := func(id string, seq int, flush bool) *el.Event {
			return &el.Event{Type: "t", Payload: &hn.GP{ID: id, Seq: seq, Flush: flush, Rec: g.Rec}}
		}
		vrt.Quiet(func() {
			g.F.Process(ctx, mk("a", 1, false))
			g.F.Process(ctx, mk("b", 2, false))
		})
		vrt.GoNamed("flushall", func() {
			if err := g.F.FlushAll(ctx); err != nil {
				vrt.Fail("FlushAll: %v", err)
			}
		})
		vrt.GoNamed("flush-event", func() {
			if _, err := g.F.Process(ctx, mk("a", 3, true)); err != nil {
				vrt.Fail("Process(flush a): %v", err)
			}
		})
		vrt.GoNamed("close", func() {
			if err := g.F.Close(ctx); err != nil {
				vrt.Fail("Close: %v", err)
			}
		})
		vrt.Join()
		times := map[int]int{}
		sig := ""
		for _, comp := range g.Rec.All() {
			for _, s := range comp.Seqs {
				times[s]++
			}
			sig += fmt.Sprintf("%s%v ", comp.ID, comp.Seqs)
		}
		for _, s := range []int{1, 2, 3} {
			if times[s] != 1 {
				vrt.Fail("FlushAll || flush event || Close: event #%d was emitted %d time(s), exactly once expected (compositions: %s)", s, times[s], sig)
			}
		}
		return sig
	}
}

func concBody(c conc) func() string {
	if c.Flush {
		return flushBody(c)
	}
	return func() string {
		g := hn.NewGateInst(hn.GateCfg{Broker: c.Broker, IDs: []string{"a", "b", "c"}}, true)
		ctx := context.Background()
		start := g.Clk.Now()
		mk := func(id string, seq int) *el.Event {
			return &el.Event{Type: "t", Payload: &hn.GP{ID: id, Seq: seq, Rec: g.Rec}}
		}
		ea, eb := mk("a", 1), mk("b", 2)
		vrt.GoNamed("senderA", func() {
			if _, err := g.F.Process(ctx, ea); err != nil {
				vrt.Fail("Process(a): %v", err)
			}
		})
		vrt.GoNamed("senderB", func() {
			if _, err := g.F.Process(ctx, eb); err != nil {
				vrt.Fail("Process(b): %v", err)
			}
		})
		vrt.GoNamed("clock", func() { clockStep{g.Clk}.advance(600 * time.Millisecond) })
		vrt.Join()
		// move to start+1.3s: a group opened at +0 has expired (Expiration 1s), one opened at +0.6s has not
		now := g.Clk.Now()
		clockStep{g.Clk}.advance(start.Add(1300 * time.Millisecond).Sub(now))
		T := g.Clk.Now()
		if _, err := g.F.Process(ctx, mk("c", 3)); err != nil {
			vrt.Fail("Process(c): %v", err)
		}
		exps, ok := hn.PrivateExpiries(g.F)
		if !ok {
			return "private layout unknown: white-box invariant skipped"
		}
		sig := ""
		for id, exp := range exps {
			if exp.Before(T) {
				vrt.Fail("after a successful Process at T=start+%v the group of id %q, whose expiry start+%v lies before T, is still gated (groups: %v)", T.Sub(start), id, exp.Sub(start), exps)
			}
			sig += fmt.Sprintf("%s@%v ", id, exp.Sub(start).Round(100*time.Millisecond))
		}
		return sig
	}
}

func main() {
	seqCheck := seqmc.Check(harness, "", nil, 0, 0)
	nSeq := len(cfgs())
	hk.Main(&hk.Check{
		ID: prop,
		Scenarios: func(tier string) []string {
			n := seqCheck.Scenarios(tier)
			for _, c := range concScenarios(tier) {
				n = append(n, c.Name)
			}
			return n
		},
		SplitScenario: func(tier string, scn int) bool { return scn >= nSeq },
		RunJob: func(tier string, job hk.Job, deadline time.Time) *hk.Result {
			if job.Scn < nSeq {
				return seqmc.RunJob(harness, tier, job, deadline)
			}
			c := concScenarios(tier)[job.Scn-nSeq]
			ex := &vrt.Explorer{Bound: c.Bound, Body: concBody(c)}
			return hk.ExploreJob(prop, job, deadline, ex, c.Name)
		},
		Rule:        seqRule + " Concurrent part: two senders racing with a clock step, every schedule within the preemption bound; then a Process at a time between the two possible expiries: no held group's expiry (read from the filter's private state) may lie before that time.",
		Assumptions: []string{"the clock is the filter's NowFunc, owned by the harness", "depth 6 (quick) / 8 (thorough)", "the concurrent scenario reads gatedEvent.exp by reflection; if the private layout changes it is skipped, not failed"},
		QuickBudget: 300 * time.Second, ThoroughBudget: 45 * time.Minute,
	})
}

const seqRule = "BFS over all histories up to the depth bound of {event(id), flush event, event with an already cancelled context, clock +1ms, clock +0.6 x Expiration, clock +Expiration+1ms, FlushAll, Close} on the real gated.Filter with 3 ids (full alphabet) and 5 ids (0..5 groups open at once), Broker set / nil, and with the Broker or the composition failing at its k-th call (a part-way failure followed by a retry). After every successful Process at virtual time T a probe on a replayed copy must find no group whose expiry lies before T, the expired groups must have reached the Sender oldest first (or been dropped with no Broker); after a successful FlushAll / Close the probe must find nothing and every previously held group must have been emitted exactly once."

func unusedMain() {
	hk.Main(seqmc.Check(harness,
		"BFS over all histories up to the depth bound of {event(id), flush event, clock +1ms, clock +0.6 x Expiration, clock +Expiration+1ms, FlushAll, Close} on the real gated.Filter with 3 ids (full alphabet) and 5 ids (0..5 groups open at once), Broker set / nil, and with the Broker or the composition failing at its k-th call (a part-way failure followed by a retry). After every successful Process at virtual time T a probe on a replayed copy must find no group whose expiry lies before T, the expired groups must have reached the Sender oldest first (or been dropped with no Broker); after a successful FlushAll / Close the probe must find nothing and every previously held group must have been emitted exactly once.",
		[]string{"the clock is the filter's NowFunc, owned by the harness", "depth 6 (quick) / 8 (thorough)"},
		300*time.Second, 45*time.Minute))
}
