// C17 — gated events do not linger: expiry, FlushAll and Close empty the gate.
package main

import (
	"fmt"
	"time"

	"verif/hk"
	"verif/hn"
	"verif/seqmc"
)

const prop = "C17"

func cfgs() []hn.GateCfg {
	out := []hn.GateCfg{
		{Broker: true, IDs: []string{"a", "b", "c"}},
		{Broker: false, IDs: []string{"a", "b", "c"}},
		{Broker: true, IDs: []string{"a", "b", "c", "d", "e"}},
		{Broker: false, IDs: []string{"a", "b", "c", "d", "e"}},
	}
	for i := range out {
		out[i].Name = fmt.Sprintf("broker=%v ids=%d", out[i].Broker, len(out[i].IDs))
	}
	return out
}

func alphabet(c hn.GateCfg) []string {
	var a []string
	for _, id := range c.IDs {
		a = append(a, "ev "+id)
	}
	if len(c.IDs) <= 3 {
		for _, id := range c.IDs {
			a = append(a, "ev "+id+" flush")
		}
		a = append(a, "nongate")
	}
	return append(a, "tick", "expire", "flushall", "close")
}

var harness = &seqmc.Harness{
	Property: prop,
	Configs: func(tier string) []seqmc.Config {
		d := 6
		if tier == "thorough" {
			d = 8
		}
		var out []seqmc.Config
		for _, c := range cfgs() {
			out = append(out, seqmc.Config{Name: c.Name, Alphabet: alphabet(c), Depth: d})
		}
		return out
	},
	New: func(tier string, cfg int) seqmc.Instance { return hn.NewGateInst(cfgs()[cfg], true) },
}

func main() {
	hk.Main(seqmc.Check(harness,
		"BFS over all histories up to the depth bound of {event(id), flush event, clock +1ms, clock +Expiration+1ms, FlushAll, Close} on the real gated.Filter with 3 ids (full alphabet) and 5 ids (0..5 groups open at once), Broker set / nil. After every successful Process at virtual time T a probe on a replayed copy must find no group whose expiry lies before T, the expired groups must have reached the Sender oldest first (or been dropped with no Broker); after a successful FlushAll / Close the probe must find nothing and every previously held group must have been emitted exactly once.",
		[]string{"the clock is the filter's NowFunc, owned by the harness", "depth 6 (quick) / 8 (thorough)"},
		150*time.Second, 45*time.Minute))
}
