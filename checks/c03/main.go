// C03 — Send always returns and leaves no goroutine behind, whatever the cancel point.
package main

import (
	"fmt"
	"time"

	el "github.com/hashicorp/eventlogger"
	"verif/hk"
	"verif/hn"
	"verif/vrt"
)

const prop = "C03"

// skeleton scenarios: P pipelines of one type, pipeline i ends after len[i]
// nodes (drop / error / sink), optional blocking node, cancel mode.
func scenarios(tier string) []*hn.Scenario {
	var out []*hn.Scenario
	maxP := 3
	bound := 2
	if tier == "thorough" {
		bound = 3
	}
	var lens [][]int
	for p := 1; p <= maxP; p++ {
		var rec func(cur []int, min int)
		rec = func(cur []int, min int) {
			if len(cur) == p {
				lens = append(lens, append([]int(nil), cur...))
				return
			}
			for l := min; l <= 3; l++ {
				rec(append(cur, l), l)
			}
		}
		rec(nil, 1)
	}
	for _, ls := range lens {
		for cancel := 0; cancel <= 2; cancel++ {
			for block := -1; block < len(ls); block++ {
				if block >= 0 && cancel != 1 {
					continue // a blocked node is only released after Send returned: needs the canceller
				}
				for variant := 0; variant < 2; variant++ {
					if tier != "thorough" && variant != (len(ls)+cancel+block+2)%2 {
						continue // quick: one end-kind variant per skeleton (same synchronisation skeleton)
					}
					sc := &hn.Scenario{SendType: "t", Cancel: cancel, Thr: -1, ThrSinks: -1, Bound: bound}
					sc.Name = fmt.Sprintf("lens=%v cancel=%d block=%d v=%d", ls, cancel, block, variant)
					for pi, l := range ls {
						// pipeline of 3 nodes F,M,S; the traversal ends at node l-1
						pid := fmt.Sprintf("p%d", pi)
						ids := []string{}
						for k := 0; k < 3; k++ {
							typ := []el.NodeType{el.NodeTypeFilter, el.NodeTypeFormatter, el.NodeTypeSink}[k]
							script := hn.Pass
							if k == l-1 {
								// variant 0: traversal ends with a drop / sink success, variant 1: with an error
								script = hn.Drop
								if variant == 1 && (pi+k)%2 == 0 {
									script = hn.Err
								}
							}
							if pi == block && k == 0 {
								if k == l-1 {
									// blocked node is also the end: keep Block (pass) and let the next node end it
									script = hn.Block
								} else {
									script = hn.Block
								}
							}
							obj := fmt.Sprintf("%s.n%d", pid, k)
							sc.Nodes = append(sc.Nodes, hn.NodeSpec{Obj: obj, ID: obj, Typ: typ, Script: script})
							sc.History = append(sc.History, hn.HistOp{Op: "node", Obj: obj, ID: obj})
							ids = append(ids, obj)
						}
						sc.History = append(sc.History, hn.HistOp{Op: "pipe", ID: pid, Type: "t", Nodes: ids})
						sc.Chains = append(sc.Chains, hn.Chain{Pipe: pid, Type: "t", Nodes: ids})
					}
					out = append(out, sc)
				}
			}
		}
	}
	return out
}

func body(sc *hn.Scenario) func() string {
	return func() string {
		o := sc.Run()
		// reaching this point means: Send returned, and after the blocked nodes
		// were released every goroutine of the Send exited (Join returned).
		if o.LiveAtReturn != "" && sc.Cancel == 0 {
			vrt.Fail("Send returned with the context not cancelled while goroutines it created were still running: %s", o.LiveAtReturn)
		}
		return o.Signature()
	}
}

func main() {
	hk.Main(&hk.Check{
		ID: prop,
		Scenarios: func(tier string) []string {
			var n []string
			for _, s := range scenarios(tier) {
				n = append(n, s.Name)
			}
			return n
		},
		SplitScenario: func(tier string, scn int) bool { return true },
		RunJob: func(tier string, job hk.Job, deadline time.Time) *hk.Result {
			sc := scenarios(tier)[job.Scn]
			ex := &vrt.Explorer{Bound: sc.Bound, Permute: false, Body: body(sc)}
			return hk.ExploreJob(prop, job, deadline, ex, sc.Describe())
		},
		Rule: "stateless DFS over all schedules (thread switches at every lock/channel/select/WaitGroup/sync.Map step of the real graph.process/doProcess, select-arm choices, cancel placed at every scheduling point) of each dispatch skeleton, preemption-bounded; an outcome is distinct if (Status, error, ctx state, invoked nodes) differ; every execution is checked for deadlock, panic, primitive misuse, leaked goroutines",
		Assumptions: []string{
			"scheduling points at synchronisation operations only (sound for data-race-free code; race freedom is decided by C04/C19)",
			"promptness is judged in scheduler steps: blocked nodes are released only after Send returned, so a Send that needs node progress after cancellation deadlocks in the model",
			"<=3 pipelines x 3 nodes, preemption bound 2 (quick) / 3 (thorough)",
		},
		QuickBudget:    150 * time.Second,
		ThoroughBudget: 40 * time.Minute,
	})
}
