// C03 — Send always returns and leaves no goroutine behind, whatever the cancel point.
package main

import (
	"context"
	"fmt"
	"time"

	el "github.com/hashicorp/eventlogger"
	"verif/hk"
	"verif/hn"
	"verif/vrt"
)

const prop = "C03"

// skeleton scenarios: P pipelines of one type, pipeline i ends after len[i]
// nodes (drop / error / sink), optional blocking node, cancel mode.
func scenarios(tier string) []*hn.Scenario {
	var out []*hn.Scenario
	maxP := 3
	bound := 2
	if tier == "thorough" {
		bound = 3
	}
	var lens [][]int
	for p := 1; p <= maxP; p++ {
		var rec func(cur []int, min int)
		rec = func(cur []int, min int) {
			if len(cur) == p {
				lens = append(lens, append([]int(nil), cur...))
				return
			}
			for l := min; l <= 3; l++ {
				rec(append(cur, l), l)
			}
		}
		rec(nil, 1)
	}
	for _, ls := range lens {
		for cancel := 0; cancel <= 2; cancel++ {
			for block := -1; block < len(ls); block++ {
				if block >= 0 && cancel != 1 {
					continue // a blocked node is only released after Send returned: needs the canceller
				}
				for variant := 0; variant < 3; variant++ {
					if variant < 2 && tier != "thorough" && variant != (len(ls)+cancel+block+2)%2 {
						continue // quick: one end-kind variant per skeleton (same synchronisation skeleton)
					}
					if variant == 2 && (len(ls) < 2 || cancel == 2 || block == 0) {
						// variant 2: pipeline 0 ends with a node's own error that wraps context.DeadlineExceeded while
						// the caller's context is alive: that is a warning like any other, not a cancellation of the Send
						continue
					}
					sc := &hn.Scenario{SendType: "t", Cancel: cancel, Thr: -1, ThrSinks: -1, Bound: bound}
					sc.Name = fmt.Sprintf("lens=%v cancel=%d block=%d v=%d", ls, cancel, block, variant)
					for pi, l := range ls {
						// pipeline of 3 nodes F,M,S; the traversal ends at node l-1
						pid := fmt.Sprintf("p%d", pi)
						ids := []string{}
						for k := 0; k < 3; k++ {
							typ := []el.NodeType{el.NodeTypeFilter, el.NodeTypeFormatter, el.NodeTypeSink}[k]
							script := hn.Pass
							if k == l-1 {
								// variant 0: traversal ends with a drop / sink success, variant 1: with an error
								script = hn.Drop
								if variant == 1 && (pi+k)%2 == 0 {
									script = hn.Err
								}
								if variant == 2 && pi == 0 {
									script = hn.ErrCtx
								}
							}
							if pi == block && k == 0 {
								if k == l-1 {
									// blocked node is also the end: keep Block (pass) and let the next node end it
									script = hn.Block
								} else {
									script = hn.Block
								}
							}
							obj := fmt.Sprintf("%s.n%d", pid, k)
							sc.Nodes = append(sc.Nodes, hn.NodeSpec{Obj: obj, ID: obj, Typ: typ, Script: script})
							sc.History = append(sc.History, hn.HistOp{Op: "node", Obj: obj, ID: obj})
							ids = append(ids, obj)
						}
						sc.History = append(sc.History, hn.HistOp{Op: "pipe", ID: pid, Type: "t", Nodes: ids})
						sc.Chains = append(sc.Chains, hn.Chain{Pipe: pid, Type: "t", Nodes: ids})
					}
					out = append(out, sc)
				}
			}
		}
	}
	// time passes: pipeline 0 is busy in its first node for an hour of virtual time; the context is never
	// cancelled and has no deadline, so Send returns only after everything finished (a time limit of the
	// library's own would cut it short)
	for _, ls := range lens {
		if len(ls) > 2 {
			continue
		}
		sc := &hn.Scenario{SendType: "t", Cancel: 0, Thr: -1, ThrSinks: -1, Bound: 1, TimePasses: true}
		sc.Name = fmt.Sprintf("lens=%v never cancelled, pipeline 0 busy for an hour of virtual time", ls)
		for pi, l := range ls {
			pid := fmt.Sprintf("p%d", pi)
			ids := []string{}
			for k := 0; k < 3; k++ {
				typ := []el.NodeType{el.NodeTypeFilter, el.NodeTypeFormatter, el.NodeTypeSink}[k]
				script := hn.Pass
				if k == l-1 {
					script = hn.Drop
				}
				if pi == 0 && k == 0 {
					script = hn.Block
				}
				obj := fmt.Sprintf("%s.n%d", pid, k)
				sc.Nodes = append(sc.Nodes, hn.NodeSpec{Obj: obj, ID: obj, Typ: typ, Script: script})
				sc.History = append(sc.History, hn.HistOp{Op: "node", Obj: obj, ID: obj})
				ids = append(ids, obj)
			}
			sc.History = append(sc.History, hn.HistOp{Op: "pipe", ID: pid, Type: "t", Nodes: ids})
			sc.Chains = append(sc.Chains, hn.Chain{Pipe: pid, Type: "t", Nodes: ids})
		}
		out = append(out, sc)
	}
	return out
}

// busy-broker scenarios: the Send under test runs while another Send is stuck in
// a blocked node and a registry call is in flight; cancellation must still let it return.
type busy struct {
	Name  string
	Other string
	Bound int
}

func busyScenarios(tier string) []busy {
	b := 1
	if tier == "thorough" {
		b = 2
	}
	var out []busy
	for _, o := range []string{"setthr", "setthrs", "regnode", "regpipe", "rmpipe-other", "rmpipe-same", "rmpipenodes-same", "rmnode-unused", "getthr", "reopen"} {
		out = append(out, busy{Other: o, Bound: b})
	}
	// Send#2 is not cancelled at all: it must finish on its own while Send#1 of the same event type is still stuck
	out = append(out, busy{Other: "none-nocancel", Bound: b + 1})
	for i := range out {
		out[i].Name = fmt.Sprintf("busy broker: Send#1 stuck in a blocked node || %s || Send#2 with a canceller", out[i].Other)
	}
	return out
}

func busyBody(c busy) func() string {
	return func() string {
		log := &hn.Log{}
		gate := &vrt.Gate{}
		b, _ := el.NewBroker()
		reg := func(id string, n *hn.Node) {
			if err := b.RegisterNode(el.NodeID(id), n.AsNode()); err != nil {
				vrt.Fail("fixture: %v", err)
			}
		}
		fnode := hn.NewNode(log, "f", el.NodeTypeFilter, hn.Block, gate)
		if c.Other == "none-nocancel" {
			fnode.BlockOnlyPayload, fnode.BlockPayload = true, "one" // only Send#1's event gets stuck
		}
		reg("f", fnode)
		reg("m", hn.NewNode(log, "m", el.NodeTypeFormatter, hn.Pass, gate))
		reg("s", hn.NewNode(log, "s", el.NodeTypeSink, hn.Drop, gate))
		if err := b.RegisterPipeline(el.Pipeline{PipelineID: "p1", EventType: "t", NodeIDs: []el.NodeID{"f", "m", "s"}}); err != nil {
			vrt.Fail("fixture: %v", err)
		}
		if err := b.RegisterPipeline(el.Pipeline{PipelineID: "p2", EventType: "u", NodeIDs: []el.NodeID{"m", "s"}}); err != nil {
			vrt.Fail("fixture: %v", err)
		}
		ctx1, cancel1 := context.WithCancel(context.Background())
		ctx2, cancel2 := context.WithCancel(context.Background())
		defer cancel1()
		defer cancel2()
		vrt.GoNamed("send1", func() { b.Send(ctx1, "t", "one") })
		vrt.GoNamed("other", func() {
			switch c.Other {
			case "setthr":
				b.SetSuccessThreshold("t", 1)
			case "setthrs":
				b.SetSuccessThresholdSinks("t", 1)
			case "regnode":
				b.RegisterNode("z", hn.NewNode(log, "z", el.NodeTypeSink, hn.Drop, gate).AsNode())
			case "regpipe":
				b.RegisterPipeline(el.Pipeline{PipelineID: "p3", EventType: "t", NodeIDs: []el.NodeID{"m", "s"}})
			case "rmpipe-other":
				b.RemovePipeline("u", "p2")
			case "rmpipe-same":
				// the very pipeline Send#1 is stuck in is removed meanwhile
				b.RemovePipeline("t", "p1")
			case "rmpipenodes-same":
				b.RemovePipelineAndNodes(context.Background(), "t", "p1")
			case "rmnode-unused":
				b.RegisterNode("z", hn.NewNode(log, "z", el.NodeTypeSink, hn.Drop, gate).AsNode())
				b.RemoveNode(context.Background(), "z")
			case "getthr":
				b.SuccessThreshold("t")
			case "reopen":
				b.Reopen(context.Background())
			}
		})
		if c.Other != "none-nocancel" {
			vrt.GoNamed("canceller2", func() { cancel2() })
		}
		_, err := b.Send(ctx2, "t", "two")
		// Send#2 returned (else the execution deadlocks: the gate opens only now)
		cancel1()
		gate.Open()
		vrt.Join()
		return fmt.Sprintf("send2 err=%v", err != nil)
	}
}

// rendezvous scenarios: "nodes finishing in any order" includes orders in which a node of one pipeline
// finishes only after a node of another pipeline has started (they serve one downstream system, say).
// Every pipeline's k-th node waits until the k-th node of every other pipeline has been entered; nothing
// is cancelled. The nodes do return when the pipelines run side by side, so Send must return.
type rdv struct {
	Name   string
	Pipes  int
	Level  int // which node of each pipeline takes part (0 = root)
	Cancel bool
	Bound  int
}

func rdvScenarios(tier string) []rdv {
	var out []rdv
	for _, p := range []int{2, 3} {
		for lvl := 1; lvl < 3; lvl++ { // (the roots of an event type's pipelines run one after the other on the range goroutine)
			out = append(out, rdv{Pipes: p, Level: lvl, Bound: 1})
		}
	}
	for i := range out {
		out[i].Name = fmt.Sprintf("rendezvous: node %d of each of %d pipelines returns only once node %d of every other pipeline has been entered (never cancelled)", out[i].Level, out[i].Pipes, out[i].Level)
	}
	return out
}

func rdvBody(c rdv) func() string {
	return func() string {
		log := &hn.Log{}
		b, _ := el.NewBroker()
		entered := make([]*vrt.Gate, c.Pipes)
		for i := range entered {
			entered[i] = &vrt.Gate{}
		}
		for pi := 0; pi < c.Pipes; pi++ {
			pi := pi
			var ids []el.NodeID
			for k := 0; k < 3; k++ {
				typ := []el.NodeType{el.NodeTypeFilter, el.NodeTypeFormatter, el.NodeTypeSink}[k]
				scr := hn.Pass
				if k == 2 {
					scr = hn.Drop
				}
				id := fmt.Sprintf("p%d.n%d", pi, k)
				n := hn.NewNode(log, id, typ, scr, nil)
				if k == c.Level {
					n.OnProcess = func(context.Context, *el.Event) {
						entered[pi].Open()
						for j := range entered {
							if j != pi {
								entered[j].Wait()
							}
						}
					}
				}
				if err := b.RegisterNode(el.NodeID(id), n.AsNode()); err != nil {
					vrt.Fail("fixture: %v", err)
				}
				ids = append(ids, el.NodeID(id))
			}
			if err := b.RegisterPipeline(el.Pipeline{PipelineID: el.PipelineID(fmt.Sprintf("p%d", pi)), EventType: "t", NodeIDs: ids}); err != nil {
				vrt.Fail("fixture: %v", err)
			}
		}
		st, err := b.Send(context.Background(), "t", "x")
		vrt.Join()
		if err != nil || len(st.Complete()) != c.Pipes {
			vrt.Fail("Send: err=%v complete=%v, want %d completed pipelines", err, st.Complete(), c.Pipes)
		}
		return "returned"
	}
}

func body(sc *hn.Scenario) func() string {
	return func() string {
		o := sc.Run()
		// reaching this point means: Send returned, and after the blocked nodes
		// were released every goroutine of the Send exited (Join returned).
		if o.LiveAtReturn != "" && sc.Cancel == 0 {
			vrt.Fail("Send returned with the context not cancelled while goroutines it created were still running: %s", o.LiveAtReturn)
		}
		return o.Signature()
	}
}

func main() {
	hk.Main(&hk.Check{
		ID: prop,
		Scenarios: func(tier string) []string {
			var n []string
			for _, s := range scenarios(tier) {
				n = append(n, s.Name)
			}
			for _, s := range busyScenarios(tier) {
				n = append(n, s.Name)
			}
			for _, s := range rdvScenarios(tier) {
				n = append(n, s.Name)
			}
			return n
		},
		SplitScenario: func(tier string, scn int) bool { return true },
		RunJob: func(tier string, job hk.Job, deadline time.Time) *hk.Result {
			if all, bs := scenarios(tier), busyScenarios(tier); job.Scn >= len(all)+len(bs) {
				c := rdvScenarios(tier)[job.Scn-len(all)-len(bs)]
				ex := &vrt.Explorer{Bound: c.Bound, FreeBound: 3, Body: rdvBody(c)}
				return hk.ExploreJob(prop, job, deadline, ex, c.Name)
			} else if job.Scn >= len(all) {
				c := busyScenarios(tier)[job.Scn-len(all)]
				ex := &vrt.Explorer{Bound: c.Bound, FreeBound: 4, Body: busyBody(c)}
				return hk.ExploreJob(prop, job, deadline, ex, c.Name)
			}
			sc := scenarios(tier)[job.Scn]
			ex := &vrt.Explorer{Bound: sc.Bound, Permute: false, Body: body(sc)}
			if sc.TimePasses {
				ex.Clock = 1_700_000_000_000_000_000
			}
			return hk.ExploreJob(prop, job, deadline, ex, sc.Describe())
		},
		Rule: "stateless DFS over all schedules (thread switches at every lock/channel/select/WaitGroup/sync.Map step of the real graph.process/doProcess, select-arm choices, cancel placed at every scheduling point) of each dispatch skeleton, preemption-bounded; an outcome is distinct if (Status, error, ctx state, invoked nodes) differ; every execution is checked for deadlock, panic, primitive misuse, leaked goroutines; plus 'busy broker' scenarios: the Send under test runs while another Send is stuck inside a blocked node and a registry call (threshold setter / getter, RegisterNode, RegisterPipeline, RemovePipeline / RemovePipelineAndNodes of another or of the very pipeline the first Send is stuck in, RemoveNode, Reopen) is in flight - its cancellation must still let it return (bound 1 / 2, at most 4 non-default switches at blocking points); plus 'rendezvous' scenarios: the k-th node of each of 2-3 pipelines returns only once the k-th node of every other pipeline has been entered, never cancelled - Send must return with every pipeline complete",
		Assumptions: []string{
			"scheduling points at synchronisation operations only (sound for data-race-free code; race freedom is decided by C04/C19)",
			"promptness is judged in scheduler steps: blocked nodes are released only after Send returned, so a Send that needs node progress after cancellation deadlocks in the model",
			"<=3 pipelines x 3 nodes, preemption bound 2 (quick) / 3 (thorough)",
		},
		QuickBudget:    300 * time.Second,
		ThoroughBudget: 40 * time.Minute,
	})
}
