// C04 — Broker is race-free under concurrent use; registration is linearizable for Send.
package main

import (
	"context"
	"fmt"
	"sort"
	"strings"
	"time"

	el "github.com/hashicorp/eventlogger"
	"verif/hk"
	"verif/hn"
	"verif/vrt"
)

const prop = "C04"

// ---- alphabet ------------------------------------------------------------------

type op struct {
	Kind string // send regnode regpipe rmpipe rmpipenodes rmnode setthr setthrs getthr getthrs isany reopen
	Type string
	ID   string   // pipeline id or node id
	Ver  string   // regpipe: version label (marker sink object), regnode: object
	IDs  []string // regpipe: node ids
	N    int
}

func (o op) String() string {
	switch o.Kind {
	case "send", "getthr", "getthrs", "isany":
		return fmt.Sprintf("%s(%s)", o.Kind, o.Type)
	case "regpipe":
		return fmt.Sprintf("regpipe(%s/%s:%v)", o.Type, o.ID, o.IDs)
	case "rmpipe", "rmpipenodes":
		return fmt.Sprintf("%s(%s/%s)", o.Kind, o.Type, o.ID)
	case "regnode":
		return fmt.Sprintf("regnode(%s=%s)", o.ID, o.Ver)
	case "rmnode":
		return fmt.Sprintf("rmnode(%s)", o.ID)
	case "setthr", "setthrs":
		return fmt.Sprintf("%s(%s,%d)", o.Kind, o.Type, o.N)
	}
	return o.Kind
}

// fixture: nodes f m s1 s2 s3 x registered; pipeline t1/p1 = [f m s1].
// Marker sinks: s1 = p1 version 1, s2 = t1/p2 or p1 version 2, s3 = t2/p1.
var alphabet = []op{
	{Kind: "send", Type: "t1"},
	{Kind: "send", Type: "t2"},
	{Kind: "regpipe", Type: "t1", ID: "p2", IDs: []string{"m", "s2"}, Ver: "s2"},
	{Kind: "regpipe", Type: "t1", ID: "p1", IDs: []string{"m", "s2"}, Ver: "s2"}, // overwrite
	{Kind: "regpipe", Type: "t2", ID: "p1", IDs: []string{"f", "m", "s3"}, Ver: "s3"},
	{Kind: "regpipe", Type: "t1", ID: "p1", IDs: []string{"f", "s2"}, Ver: "s2"}, // ill-formed (no formatter): must fail and never be seen by a Send
	{Kind: "rmpipe", Type: "t1", ID: "p1"},
	{Kind: "rmpipenodes", Type: "t1", ID: "p1"},
	{Kind: "rmpipe", Type: "t1", ID: "ghost"}, // an id that is not registered: accepted, and must change nothing
	{Kind: "regnode", ID: "x", Ver: "x2"},
	{Kind: "regnode", ID: "m", Ver: "m2"},
	{Kind: "rmnode", ID: "x"},
	{Kind: "rmnode", ID: "f"},
	{Kind: "setthr", Type: "t1", N: 1},
	{Kind: "setthrs", Type: "t1", N: 1},
	{Kind: "setthr", Type: "t2", N: 2}, // first use of an event type the broker has not seen
	{Kind: "setthrs", Type: "t2", N: 2},
	{Kind: "getthr", Type: "t2"},
	{Kind: "getthr", Type: "t1"},
	{Kind: "getthrs", Type: "t1"},
	{Kind: "isany", Type: "t1"},
	{Kind: "reopen"},
}

func isMut(o op) bool {
	switch o.Kind {
	case "send", "getthr", "getthrs", "isany", "reopen":
		return false
	}
	return true
}

type program struct {
	Name    string
	Threads [][]int // alphabet indices per thread
	Bound   int
}

func (p program) describe() string {
	var ts []string
	for i, t := range p.Threads {
		var os []string
		for _, k := range t {
			os = append(os, alphabet[k].String())
		}
		ts = append(ts, fmt.Sprintf("T%d:[%s]", i, strings.Join(os, ", ")))
	}
	return strings.Join(ts, " || ")
}

// prunable: two read-only calls never interfere (both take only the read lock
// and write nothing) unless one is a Send, whose fan-out is worth exploring
// against anything.
func interesting(ths [][]int) bool {
	mut, send := 0, 0
	for _, t := range ths {
		for _, k := range t {
			if isMut(alphabet[k]) {
				mut++
			}
			if alphabet[k].Kind == "send" {
				send++
			}
		}
	}
	return mut > 0 || send > 0
}

func programs(tier string) []program {
	var out []program
	n := len(alphabet)
	b2, b3 := 2, 1
	if tier == "thorough" {
		b2, b3 = 3, 2
	}
	// 2 threads x 1 call: all unordered pairs (including the same call twice)
	for i := 0; i < n; i++ {
		for j := i; j < n; j++ {
			ths := [][]int{{i}, {j}}
			if interesting(ths) {
				b := b2
				if alphabet[i].Kind == "send" && alphabet[j].Kind == "send" {
					b-- // two fan-outs only share the registry read lock and the sync.Map
				}
				out = append(out, program{Threads: ths, Bound: b})
			}
		}
	}
	// 3 threads x 1 call: a Send(t1), plus two others of which one mutates
	for i := 0; i < n; i++ {
		for j := i; j < n; j++ {
			if !(isMut(alphabet[i]) || isMut(alphabet[j])) {
				continue
			}
			if tier != "thorough" && !(isMut(alphabet[i]) && isMut(alphabet[j])) {
				continue
			}
			out = append(out, program{Threads: [][]int{{0}, {i}, {j}}, Bound: b3})
		}
	}
	// 2 threads x 2 calls: sender sends twice while a mutator does two calls
	for i := 2; i < n; i++ {
		for j := 2; j < n; j++ {
			if !isMut(alphabet[i]) || !isMut(alphabet[j]) || i == j {
				continue
			}
			if tier != "thorough" && (alphabet[i].Type != "t1" && alphabet[j].Type != "t1") {
				continue
			}
			out = append(out, program{Threads: [][]int{{0, 0}, {i, j}}, Bound: b3})
		}
	}
	for i := range out {
		out[i].Name = out[i].describe()
	}
	return out
}

// ---- one execution ---------------------------------------------------------------

type call struct {
	Op        op
	Thread    int
	CallT     int
	RetT      int
	Err       bool
	Ret       string
	Delivered []string // send: marker/node objects invoked
}

type world struct {
	b    *el.Broker
	log  *hn.Log
	objs map[string]*hn.Node
}

func newWorld() *world {
	w := &world{log: &hn.Log{}, objs: map[string]*hn.Node{}}
	w.b, _ = el.NewBroker()
	mk := func(name string, t el.NodeType, s hn.Script) {
		w.objs[name] = hn.NewNode(w.log, name, t, s, nil)
	}
	mk("f", el.NodeTypeFilter, hn.Pass)
	mk("m", el.NodeTypeFormatter, hn.Pass)
	mk("m2", el.NodeTypeFormatter, hn.Pass)
	mk("s1", el.NodeTypeSink, hn.Drop)
	mk("s2", el.NodeTypeSink, hn.Drop)
	mk("s3", el.NodeTypeSink, hn.Drop)
	mk("x", el.NodeTypeSink, hn.Drop)
	mk("x2", el.NodeTypeSink, hn.Drop)
	// s1's Close complains: a removal that answers true has still removed the pipeline
	w.objs["s1"].CloseErr = fmt.Errorf("close of s1 fails")
	// ... and its Reopen fails too: the error paths of Reopen are paths like any other
	w.objs["s1"].ReopenErr = fmt.Errorf("reopen of s1 fails")
	for _, id := range []string{"f", "m", "s1", "s2", "s3", "x"} {
		if err := w.b.RegisterNode(el.NodeID(id), w.objs[id].AsNode()); err != nil {
			vrt.Fail("fixture: %v", err)
		}
	}
	if err := w.b.RegisterPipeline(el.Pipeline{PipelineID: "p1", EventType: "t1", NodeIDs: []el.NodeID{"f", "m", "s1"}}); err != nil {
		vrt.Fail("fixture: %v", err)
	}
	return w
}

type stamps struct{ t int }

//go:norace
func (s *stamps) tick() int { s.t++; return s.t }

func (w *world) apply(o op, c *call) {
	ctx := context.Background()
	var err error
	switch o.Kind {
	case "send":
		before := len(w.log.Invs())
		_ = before
		var st el.Status
		st, err = w.b.Send(ctx, el.EventType(o.Type), c)
		c.Ret = fmt.Sprintf("complete=%d sinks=%d warn=%d", len(st.Complete()), len(st.CompleteSinks()), len(st.Warnings))
	case "regpipe":
		ids := make([]el.NodeID, len(o.IDs))
		for i, s := range o.IDs {
			ids[i] = el.NodeID(s)
		}
		err = w.b.RegisterPipeline(el.Pipeline{PipelineID: el.PipelineID(o.ID), EventType: el.EventType(o.Type), NodeIDs: ids})
	case "rmpipe":
		err = w.b.RemovePipeline(el.EventType(o.Type), el.PipelineID(o.ID))
	case "rmpipenodes":
		var ok bool
		ok, err = w.b.RemovePipelineAndNodes(ctx, el.EventType(o.Type), el.PipelineID(o.ID))
		c.Ret = fmt.Sprint(ok, err != nil)
		if ok {
			err = nil // the removal took place (c.Err means: the call did not take effect)
		}
	case "regnode":
		err = w.b.RegisterNode(el.NodeID(o.ID), w.objs[o.Ver].AsNode())
	case "rmnode":
		err = w.b.RemoveNode(ctx, el.NodeID(o.ID))
	case "setthr":
		err = w.b.SetSuccessThreshold(el.EventType(o.Type), o.N)
	case "setthrs":
		err = w.b.SetSuccessThresholdSinks(el.EventType(o.Type), o.N)
	case "getthr":
		n, ok := w.b.SuccessThreshold(el.EventType(o.Type))
		c.Ret = fmt.Sprint(n, ok)
	case "getthrs":
		n, ok := w.b.SuccessThresholdSinks(el.EventType(o.Type))
		c.Ret = fmt.Sprint(n, ok)
	case "isany":
		c.Ret = fmt.Sprint(w.b.IsAnyPipelineRegistered(el.EventType(o.Type)))
	case "reopen":
		err = w.b.Reopen(ctx)
	}
	c.Err = err != nil
}

func (w *world) finalState() string {
	var cl []string
	for name, n := range w.objs {
		cl = append(cl, fmt.Sprintf("%s:closes=%d", name, n.Closes))
	}
	sort.Strings(cl)
	return vrt.Dump(w.b, nil) + " " + strings.Join(cl, ",")
}

// deliveries of one Send are identified by the payload pointer (the *call).
func deliveriesOf(l *hn.Log, c *call) []string {
	var out []string
	for _, inv := range l.Invs() {
		if inv.InPay == any(c) || inv.In != nil && inv.In.Payload == any(c) {
			out = append(out, inv.Node)
		}
	}
	sort.Strings(out)
	return out
}

func body(p program) func() string {
	return func() string {
		w := newWorld()
		clk := &stamps{}
		var calls []*call
		perThread := make([][]*call, len(p.Threads))
		for ti, t := range p.Threads {
			for _, k := range t {
				c := &call{Op: alphabet[k], Thread: ti}
				calls = append(calls, c)
				perThread[ti] = append(perThread[ti], c)
			}
		}
		for ti := range p.Threads {
			cs := perThread[ti]
			vrt.GoNamed(fmt.Sprintf("T%d", ti), func() {
				for _, c := range cs {
					c.CallT = clk.tick()
					w.apply(c.Op, c)
					c.RetT = clk.tick()
				}
			})
		}
		vrt.Join()
		// after quiescence: one probe Send per event type. Every registry call has returned before it
		// starts, so it must deliver exactly to the pipelines some real-time-consistent order leaves behind.
		// (run without choice points: the probes are sequential, their own fan-out is C01/C03's subject)
		vrt.Quiet(func() {
			for _, k := range []int{0, 1} {
				c := &call{Op: alphabet[k], Thread: len(p.Threads)}
				c.CallT = clk.tick()
				w.apply(c.Op, c)
				c.RetT = clk.tick()
				calls = append(calls, c)
			}
		})
		// the private state is compared after the probes, here and in the sequential replays: whatever a Send
		// builds lazily (a cache, an index) has then been built in both worlds
		final := w.finalState()
		for _, c := range calls {
			if c.Op.Kind == "send" {
				c.Delivered = deliveriesOf(w.log, c)
			}
		}
		if msg := checkDeliveries(calls); msg != "" {
			vrt.Fail("%s", msg)
		}
		// (the sequential replays, with their probe Sends, are the oracle's own business: no choice points)
		qmsg := ""
		vrt.Quiet(func() { qmsg = checkQuiescent(p, calls, final) })
		if qmsg != "" {
			vrt.Fail("%s", qmsg)
		}
		var sig []string
		for _, c := range calls {
			sig = append(sig, fmt.Sprintf("%s=%v/%s/%v", c.Op, c.Err, c.Ret, c.Delivered))
		}
		return strings.Join(sig, " ")
	}
}

// ---- oracle 2: per pipeline key, what a Send may deliver ------------------------

type pipeState struct {
	present bool
	marker  string
	chain   []string
}

func initialPipes() map[string]pipeState {
	return map[string]pipeState{"t1/p1": {true, "s1", []string{"f", "m", "s1"}}}
}

// nodeObj: which object a node id resolves to is itself state (regnode(m=m2)),
// handled by treating the chain of a registration as ambiguous between the
// candidates when a regnode overlaps; to stay sound we only check marker sinks
// (s1, s2, s3), which are never re-registered by the alphabet.
func checkDeliveries(calls []*call) string {
	for _, s := range calls {
		if s.Op.Kind != "send" {
			continue
		}
		// group mutators by pipeline key of the sent type
		keys := map[string][]*call{}
		for _, c := range calls {
			if c.Err {
				continue
			}
			switch c.Op.Kind {
			case "regpipe", "rmpipe", "rmpipenodes":
				if c.Op.Type == s.Op.Type {
					k := c.Op.Type + "/" + c.Op.ID
					keys[k] = append(keys[k], c)
				}
			}
		}
		for k, st := range initialPipes() {
			if strings.HasPrefix(k, s.Op.Type+"/") {
				if _, ok := keys[k]; !ok {
					keys[k] = nil
				}
				_ = st
			}
		}
		markers := map[string]bool{"s1": true, "s2": true, "s3": true}
		counted := map[string]int{}
		for _, d := range s.Delivered {
			if markers[d] {
				counted[d]++
			}
		}
		// allowed marker multisets: product over keys of candidate states
		allowed := []map[string]int{{}}
		for k, ops := range keys {
			cands := candidates(initialPipes()[k], ops, s)
			var next []map[string]int
			for _, a := range allowed {
				for _, c := range cands {
					m := map[string]int{}
					for x, n := range a {
						m[x] = n
					}
					if c.present {
						m[c.marker]++
					}
					next = append(next, m)
				}
			}
			allowed = next
		}
		ok := false
		for _, a := range allowed {
			if eqCount(a, counted) {
				ok = true
				break
			}
		}
		if !ok {
			return fmt.Sprintf("Send(%s) [call@%d ret@%d] delivered to marker sinks %v, which no registration state permitted by the call/return order of the registry calls allows (allowed: %v); calls: %s", s.Op.Type, s.CallT, s.RetT, counted, allowed, renderCalls(calls))
		}
	}
	return ""
}

func eqCount(a, b map[string]int) bool {
	for k, v := range a {
		if v != 0 && b[k] != v {
			return false
		}
	}
	for k, v := range b {
		if v != 0 && a[k] != v {
			return false
		}
	}
	return true
}

func renderCalls(calls []*call) string {
	var s []string
	for _, c := range calls {
		s = append(s, fmt.Sprintf("T%d %s [%d,%d] err=%v ret=%s", c.Thread, c.Op, c.CallT, c.RetT, c.Err, c.Ret))
	}
	return strings.Join(s, "; ")
}

// candidates returns the states of one pipeline key that a Send with interval
// [s.CallT, s.RetT] may observe: all linearizations of the key's mutators
// consistent with real-time order; every prefix that contains all mutators
// that returned before the Send was called and none that were called after it
// returned.
func candidates(init pipeState, ops []*call, s *call) []pipeState {
	var out []pipeState
	n := len(ops)
	perm := make([]int, 0, n)
	used := make([]bool, n)
	var rec func()
	rec = func() {
		if len(perm) == n {
			// check real-time consistency
			for i := 0; i < n; i++ {
				for j := i + 1; j < n; j++ {
					if ops[perm[j]].RetT < ops[perm[i]].CallT {
						return
					}
				}
			}
			st := init
			for cut := 0; cut <= n; cut++ {
				okCut := true
				for i := 0; i < n; i++ {
					o := ops[perm[i]]
					if i < cut && o.CallT > s.RetT {
						okCut = false // applied although it started after the Send ended
					}
					if i >= cut && o.RetT < s.CallT {
						okCut = false // not applied although it finished before the Send began
					}
				}
				if okCut {
					out = append(out, st)
				}
				if cut < n {
					o := ops[perm[cut]]
					switch o.Op.Kind {
					case "regpipe":
						st = pipeState{true, o.Op.Ver, o.Op.IDs}
					default:
						st = pipeState{}
					}
				}
			}
			return
		}
		for i := 0; i < n; i++ {
			if !used[i] {
				used[i] = true
				perm = append(perm, i)
				rec()
				perm = perm[:len(perm)-1]
				used[i] = false
			}
		}
	}
	rec()
	return out
}

// ---- oracle 3: quiescent state equals some sequential order ----------------------

func checkQuiescent(p program, calls []*call, final string) string {
	// registry-visible calls only (Sends do not change the registry but their
	// return values depend on it; they are checked by oracle 2)
	var reg []*call
	for _, c := range calls {
		if c.Op.Kind != "send" {
			reg = append(reg, c)
		}
	}
	n := len(reg)
	if n == 0 {
		return ""
	}
	perm := make([]int, 0, n)
	used := make([]bool, n)
	found := false
	var tried []string
	var rec func()
	rec = func() {
		if found {
			return
		}
		if len(perm) == n {
			for i := 0; i < n; i++ {
				for j := i + 1; j < n; j++ {
					if reg[perm[j]].RetT < reg[perm[i]].CallT {
						return
					}
				}
			}
			w := newWorld()
			ok := true
			var got []string
			for _, k := range perm {
				c := &call{Op: reg[k].Op}
				w.apply(c.Op, c)
				got = append(got, fmt.Sprintf("%s=%v/%s", c.Op, c.Err, c.Ret))
				if c.Err != reg[k].Err || c.Ret != reg[k].Ret {
					ok = false
				}
			}
			for _, k := range []int{0, 1} {
				pc := &call{Op: alphabet[k]}
				w.apply(pc.Op, pc)
			}
			fs := w.finalState()
			if ok && fs == final {
				found = true
				return
			}
			tried = append(tried, strings.Join(got, ",")+" stateEqual="+fmt.Sprint(fs == final))
			return
		}
		for i := 0; i < n; i++ {
			if !used[i] {
				used[i] = true
				perm = append(perm, i)
				rec()
				perm = perm[:len(perm)-1]
				used[i] = false
			}
		}
	}
	rec()
	if !found {
		return fmt.Sprintf("after quiescence the broker's state and the calls' results (%s) match no sequential order of the calls consistent with their real-time order; sequential orders gave: %v", renderCalls(reg), tried)
	}
	return ""
}

func main() {
	hk.Main(&hk.Check{
		ID: prop,
		Scenarios: func(tier string) []string {
			var n []string
			for _, p := range programs(tier) {
				n = append(n, p.Name)
			}
			return n
		},
		SplitScenario: func(tier string, scn int) bool { return true },
		RunJob: func(tier string, job hk.Job, deadline time.Time) *hk.Result {
			p := programs(tier)[job.Scn]
			ex := &vrt.Explorer{Bound: p.Bound, Body: body(p)}
			return hk.ExploreJob(prop, job, deadline, ex, p.Name)
		},
		Rule: "programs of 2 threads x 1 call (all pairs), 3 threads x 1 call and 2 threads x 2 calls over a 22-call Broker alphabet on a fixture registry; every schedule within the preemption bound is executed on the real Broker under the Go race detector (happens-before edges of the modelled primitives re-created, scheduler hand-offs invisible); oracles: race/panic/deadlock per execution, per-pipeline delivery counts against the call/return intervals (for the concurrent Sends and for one probe Send per event type after quiescence), quiescent private state + return values equal to a sequential order consistent with real-time order",
		Assumptions: []string{
			"race detection is happens-before based on the explored synchronisation orders; it has no false positives",
			"bounds: <=3 threads, <=2 calls per thread, preemption bound 2/1 (quick) 3/2 (thorough); 2..8 goroutines of the statement are covered up to 3",
		},
		QuickBudget:    300 * time.Second,
		ThoroughBudget: 45 * time.Minute,
	})
}
