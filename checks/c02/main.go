// C02 — Send's Status and error truthfully account for what the pipelines did.
package main

import (
	"context"
	"fmt"
	"strconv"
	"strings"
	"time"

	el "github.com/hashicorp/eventlogger"
	"verif/hk"
	"verif/hn"
	"verif/seqmc"
	"verif/vrt"
)

const prop = "C02"

var (
	P, R, D, E = hn.Pass, hn.Replace, hn.Drop, hn.Err
)

// end kinds of one pipeline of 3 nodes F,M,S
type endKind struct {
	name    string
	scripts []hn.Script
	c, s    int // completes, complete sinks it contributes
}

var ends = []endKind{
	{"sink-ok", []hn.Script{P, P, D}, 1, 1},
	{"filtered", []hn.Script{D, P, P}, 1, 0},
	{"fmt-drop", []hn.Script{P, D, P}, 1, 0},
	{"error@0", []hn.Script{E, P, P}, 0, 0},
	{"error@sink", []hn.Script{R, P, E}, 0, 0},
	{"sink-pass", []hn.Script{P, R, P}, 1, 1},
	{"ctx-like-error@sink", []hn.Script{P, P, hn.ErrCtx}, 0, 0},
}

// further ends, used in the explicit scenarios below: an error returned together with an event is an
// error (a warning, no complete), at a sink and before it
var EV = hn.ErrEv

func scenarios(tier string) []*hn.Scenario {
	var out []*hn.Scenario
	thorough := tier == "thorough"
	add := func(name string, kinds []int, shared bool, cancel, thr, thrS, bound int) {
		b := hn.NewBuilder(fmt.Sprintf("%s cancel=%d thr=%d/%d", name, cancel, thr, thrS))
		if shared {
			b.Node("m", "m", el.NodeTypeFormatter, P).Node("s", "s", el.NodeTypeSink, D)
		}
		for i, k := range kinds {
			pid := fmt.Sprintf("p%d", i)
			if shared {
				f := fmt.Sprintf("f%d", i)
				b.Node(f, f, el.NodeTypeFilter, ends[k].scripts[0])
				b.Pipe("t1", pid, f, "m", "s")
			} else {
				b.Std("t1", pid, ends[k].scripts...)
			}
		}
		sc := b.Scenario()
		sc.Cancel, sc.Thr, sc.ThrSinks, sc.Bound = cancel, thr, thrS, bound
		out = append(out, sc)
	}
	var vectors [][]int
	for p := 1; p <= 3; p++ {
		var rec func(cur []int, min int)
		rec = func(cur []int, min int) {
			if len(cur) == p {
				vectors = append(vectors, append([]int(nil), cur...))
				return
			}
			for k := min; k < len(ends); k++ {
				if p == 3 && k >= 6 {
					continue // the ctx-like error has the synchronisation skeleton of error@sink: covered for 1-2 pipelines
				}
				rec(append(cur, k), k)
			}
		}
		rec(nil, 0)
	}
	for vi, v := range vectors {
		p := len(v)
		c, s := 0, 0
		name := "ends="
		for _, k := range v {
			c += ends[k].c
			s += ends[k].s
			name += ends[k].name + ","
		}
		for cancel := 0; cancel <= 2; cancel++ {
			hasCtxLike := false
			for _, k := range v {
				if k >= 6 {
					hasCtxLike = true
				}
			}
			if p <= 2 && !(p == 2 && hasCtxLike) {
				// full square of thresholds
				for thr := -1; thr <= p+1; thr++ {
					for thrS := -1; thrS <= p+1; thrS++ {
						if (thr == -1) != (thrS == -1) {
							continue
						}
						if !thorough && p == 2 && cancel == 1 && (thr+thrS+vi)%3 != 0 {
							continue
						}
						add(name, v, false, cancel, thr, thrS, 2)
					}
				}
			} else {
				if !thorough && p == 3 && vi%3 != 0 {
					continue
				}
				bound := 1
				if thorough || p == 2 {
					bound = 2
				}
				for _, pr := range [][2]int{{0, 0}, {c, s}, {c + 1, s}, {c, s + 1}, {p + 1, p + 1}} {
					add(name, v, false, cancel, pr[0], pr[1], bound)
				}
			}
		}
	}
	// a sink in the middle of a pipeline (validation only constrains the last two nodes): a sink that
	// filters the event there is a complete sink; one that passes it on is not an end at all
	for _, ms := range []hn.Script{P, R, D, E} {
		for cancel := 0; cancel <= 2; cancel++ {
			for _, pr := range [][2]int{{-1, -1}, {1, 1}, {2, 1}, {1, 2}} {
				b := hn.NewBuilder(fmt.Sprintf("mid-sink s1=%s cancel=%d thr=%d/%d", ms, cancel, pr[0], pr[1])).
					Node("m1", "m1", el.NodeTypeFormatter, P).Node("s1", "s1", el.NodeTypeSink, ms).
					Node("m2", "m2", el.NodeTypeFormatterFilter, P).Node("s2", "s2", el.NodeTypeSink, D).
					Pipe("t1", "p0", "m1", "s1", "m2", "s2")
				sc := b.Scenario()
				sc.Cancel, sc.Thr, sc.ThrSinks, sc.Bound = cancel, pr[0], pr[1], 2
				out = append(out, sc)
			}
		}
	}
	// who counts as a sink is decided by the node's type, and only NodeTypeSink is one: a formatter-filter or
	// a node of an unknown type that filters the event is a complete, not a complete sink; a node that returns
	// an event together with an error has failed
	type ex struct {
		name string
		typ  el.NodeType
		scr  hn.Script
	}
	for _, x := range []ex{{"formatter-filter drops", el.NodeTypeFormatterFilter, hn.Drop}, {"unknown-type(7) drops", el.NodeType(7), hn.Drop},
		{"formatter err+event", el.NodeTypeFormatter, EV}, {"filter err+event", el.NodeTypeFilter, EV}} {
		for cancel := 0; cancel <= 1; cancel++ {
			for _, pr := range [][2]int{{-1, -1}, {1, 0}, {1, 1}, {0, 1}} {
				b := hn.NewBuilder(fmt.Sprintf("%s cancel=%d thr=%d/%d", x.name, cancel, pr[0], pr[1])).
					Node("x", "x", x.typ, x.scr).Node("m", "m", el.NodeTypeFormatter, P).Node("s", "s", el.NodeTypeSink, D).
					Pipe("t1", "p0", "x", "m", "s").Std("t1", "p1", P, D)
				sc := b.Scenario()
				sc.Cancel, sc.Thr, sc.ThrSinks, sc.Bound = cancel, pr[0], pr[1], 2
				out = append(out, sc)
			}
		}
	}
	for cancel := 0; cancel <= 1; cancel++ {
		for _, pr := range [][2]int{{-1, -1}, {1, 1}} {
			b := hn.NewBuilder(fmt.Sprintf("sink err+event cancel=%d thr=%d/%d", cancel, pr[0], pr[1])).Std("t1", "p0", P, P, EV)
			sc := b.Scenario()
			sc.Cancel, sc.Thr, sc.ThrSinks, sc.Bound = cancel, pr[0], pr[1], 2
			out = append(out, sc)
		}
	}
	// the registry has a history when the Send comes: no-op removals (an id never registered, the same id
	// twice), a removed and a re-registered pipeline; the status counts what is registered NOW
	for cancel := 0; cancel <= 1; cancel++ {
		for _, pr := range [][2]int{{-1, -1}, {2, 2}, {3, 3}} {
			for hi, mk := range []func(b *hn.Builder) *hn.Builder{
				func(b *hn.Builder) *hn.Builder { return b.Std("t1", "p0", P, D).Std("t1", "p1", P, D).RemovePipe("t1", "ghost") },
				func(b *hn.Builder) *hn.Builder {
					return b.Std("t1", "p0", P, D).Std("t1", "p1", P, D).Std("t1", "p2", P, D).RemovePipe("t1", "p2").RemovePipe("t1", "p2")
				},
				func(b *hn.Builder) *hn.Builder {
					return b.Std("t1", "p0", P, D).Std("t1", "p1", P, E).Std("t2", "p0", P, D).RemovePipe("t2", "p0").RemovePipe("t2", "p0")
				},
				func(b *hn.Builder) *hn.Builder {
					return b.Std("t1", "p0", P, D).Std("t1", "p1", P, D).RemovePipe("t1", "p0").Std("t1", "p0", P, E)
				},
			} {
				sc := mk(hn.NewBuilder(fmt.Sprintf("registry history %d cancel=%d thr=%d/%d", hi, cancel, pr[0], pr[1]))).Scenario()
				sc.Cancel, sc.Thr, sc.ThrSinks, sc.Bound = cancel, pr[0], pr[1], 1
				out = append(out, sc)
			}
		}
	}
	// shared formatter and sink ids between the pipelines (same id reported twice)
	for _, v := range [][]int{{0, 0}, {0, 1}, {0, 3}, {0, 0, 1}} {
		for cancel := 0; cancel <= 1; cancel++ {
			for _, pr := range [][2]int{{-1, -1}, {1, 1}, {2, 2}, {3, 1}, {1, 3}} {
				add(fmt.Sprintf("shared-sink kinds=%v", v), v, true, cancel, pr[0], pr[1], 2)
			}
		}
	}
	return out
}

func body(sc *hn.Scenario) func() string {
	return func() string {
		o := sc.Run()
		cancelled := sc.Cancel != 0
		endsGot, msg := sc.MatchChains(o, cancelled)
		if msg != "" {
			vrt.Fail("precondition (C01) failed, cannot judge the status: %s", msg)
		}
		if msg := sc.CheckStatus(o, endsGot, cancelled); msg != "" {
			vrt.Fail("%s", msg)
		}
		// the Status a Send returned is the caller's: a later Send must not rewrite it
		before := fmt.Sprint(o.Status.Complete(), o.Status.CompleteSinks(), o.Status.Warnings)
		vrt.Quiet(func() {
			o.Broker.Send(context.Background(), el.EventType(sc.SendType), "a later event")
			o.Broker.Send(context.Background(), "some-other-type", "and one of another type")
		})
		if after := fmt.Sprint(o.Status.Complete(), o.Status.CompleteSinks(), o.Status.Warnings); after != before {
			vrt.Fail("the Status returned by a Send changed when later Sends ran: was %s, is %s", before, after)
		}
		return o.Signature()
	}
}

// ---- concurrent first use of an event type ---------------------------------------

type firstUse struct {
	Name string
	A, B string
}

func firstUseScenarios() []firstUse {
	out := []firstUse{{A: "setthr", B: "setthrs"}, {A: "setthr", B: "regpipe"}, {A: "setthrs", B: "regpipe"}, {A: "setthr", B: "setthr2"}}
	for i := range out {
		out[i].Name = fmt.Sprintf("first use of an event type: %s || %s, then getters and a Send", out[i].A, out[i].B)
	}
	return out
}

func firstUseBody(c firstUse) func() string {
	return func() string {
		log := &hn.Log{}
		b, _ := el.NewBroker()
		b.RegisterNode("m", hn.NewNode(log, "m", el.NodeTypeFormatter, hn.Pass, nil))
		b.RegisterNode("s", hn.NewNode(log, "s", el.NodeTypeSink, hn.Drop, nil))
		do := func(op string) {
			var err error
			switch op {
			case "setthr":
				err = b.SetSuccessThreshold("t", 1)
			case "setthr2":
				err = b.SetSuccessThreshold("t", 1)
			case "setthrs":
				err = b.SetSuccessThresholdSinks("t", 1)
			case "regpipe":
				err = b.RegisterPipeline(el.Pipeline{PipelineID: "p", EventType: "t", NodeIDs: []el.NodeID{"m", "s"}})
			}
			if err != nil {
				vrt.Fail("%s failed: %v", op, err)
			}
		}
		vrt.GoNamed("A", func() { do(c.A) })
		vrt.GoNamed("B", func() { do(c.B) })
		vrt.Join()
		thr, ok1 := b.SuccessThreshold("t")
		thrS, ok2 := b.SuccessThresholdSinks("t")
		wantThr, wantThrS := 0, 0
		for _, op := range []string{c.A, c.B} {
			switch op {
			case "setthr", "setthr2":
				wantThr = 1
			case "setthrs":
				wantThrS = 1
			}
		}
		if !ok1 || !ok2 || thr != wantThr || thrS != wantThrS {
			vrt.Fail("after %s || %s both returned, the thresholds read back (%d,%v)/(%d,%v), last set were %d/%d", c.A, c.B, thr, ok1, thrS, ok2, wantThr, wantThrS)
		}
		if c.A == "regpipe" || c.B == "regpipe" {
			st, err := b.Send(context.Background(), "t", "x")
			if err != nil || len(st.Complete()) != 1 {
				vrt.Fail("after %s || %s the registered pipeline does not receive events: complete=%v err=%v", c.A, c.B, st.Complete(), err)
			}
		}
		return fmt.Sprint(thr, thrS)
	}
}

// ---- threshold API: explicit-state search against a reference model -----------

type thrModel struct {
	set       bool // a threshold was explicitly set for the type
	exists    bool
	thr, thrS int
	pipe      bool
}

type thrInst struct {
	b   *el.Broker
	log *hn.Log
	m   map[string]*thrModel
}

func newThrInst() *thrInst {
	b, _ := el.NewBroker()
	in := &thrInst{b: b, log: &hn.Log{}, m: map[string]*thrModel{"t1": {}, "t2": {}}}
	for _, t := range []string{"t1", "t2"} {
		b.RegisterNode(el.NodeID("m"+t), hn.NewNode(in.log, "m"+t, el.NodeTypeFormatter, hn.Pass, nil))
		b.RegisterNode(el.NodeID("s"+t), hn.NewNode(in.log, "s"+t, el.NodeTypeSink, hn.Drop, nil))
	}
	return in
}

func thrAlphabet() []string {
	var a []string
	for _, t := range []string{"t1", "t2"} {
		for _, v := range []int{-1, 0, 1, 2} {
			a = append(a, fmt.Sprintf("setthr %s %d", t, v), fmt.Sprintf("setthrs %s %d", t, v))
		}
		a = append(a, "getthr "+t, "getthrs "+t, "regpipe "+t, "send "+t, "rmpipe "+t, "rmpipenodes "+t)
	}
	a = append(a, "setthr EMPTY 1", "setthrs EMPTY 1")
	return a
}

func (in *thrInst) Apply(op string) (string, string) {
	f := strings.Fields(op)
	kind, t, v := f[0], f[1], 0
	if t == "EMPTY" {
		t = ""
	}
	if len(f) > 2 {
		v, _ = strconv.Atoi(f[2])
	}
	m := in.m[t]
	bad := func(f string, a ...any) (string, string) { return "", fmt.Sprintf(f, a...) }
	if m == nil {
		m = &thrModel{}
	}
	switch kind {
	case "setthr", "setthrs":
		var err error
		if kind == "setthr" {
			err = in.b.SetSuccessThreshold(el.EventType(t), v)
		} else {
			err = in.b.SetSuccessThresholdSinks(el.EventType(t), v)
		}
		wantErr := v < 0 || t == ""
		if (err != nil) != wantErr {
			return bad("%s(%q,%d) returned %v, want error=%v", kind, t, v, err, wantErr)
		}
		if !wantErr {
			m.exists, m.set = true, true
			if kind == "setthr" {
				m.thr = v
			} else {
				m.thrS = v
			}
		}
	case "getthr", "getthrs":
		var got int
		var ok bool
		want := m.thr
		if kind == "getthr" {
			got, ok = in.b.SuccessThreshold(el.EventType(t))
		} else {
			got, ok = in.b.SuccessThresholdSinks(el.EventType(t))
			want = m.thrS
		}
		if !m.exists {
			want = 0
		}
		if !m.set && !m.pipe {
			if got != 0 {
				return bad("%s(%s) = %d although no threshold was ever set", kind, t, got)
			}
			break
		}
		if got != want || ok != m.exists {
			return bad("%s(%s) = (%d,%v), want (%d,%v): thresholds must read back as last set and never be influenced by another type", kind, t, got, ok, want, m.exists)
		}
	case "rmpipe", "rmpipenodes":
		// removing the type's pipelines does not touch its thresholds: they read back as last set
		if kind == "rmpipe" {
			in.b.RemovePipeline(el.EventType(t), "p")
		} else {
			in.b.RemovePipelineAndNodes(context.Background(), el.EventType(t), "p")
		}
		m.pipe = false
	case "regpipe":
		// (re-)register the nodes: RemovePipelineAndNodes may have removed them
		in.b.RegisterNode(el.NodeID("m"+t), hn.NewNode(in.log, "m"+t, el.NodeTypeFormatter, hn.Pass, nil))
		in.b.RegisterNode(el.NodeID("s"+t), hn.NewNode(in.log, "s"+t, el.NodeTypeSink, hn.Drop, nil))
		err := in.b.RegisterPipeline(el.Pipeline{PipelineID: "p", EventType: el.EventType(t), NodeIDs: []el.NodeID{el.NodeID("m" + t), el.NodeID("s" + t)}})
		if err != nil {
			return bad("regpipe(%s): %v", t, err)
		}
		m.exists, m.pipe = true, true
	case "send":
		st, err := in.b.Send(context.Background(), el.EventType(t), "x")
		c := 0
		if m.pipe {
			c = 1
		}
		wantErr := !m.exists || c < m.thr || c < m.thrS
		if (err != nil) != wantErr || (m.exists && (len(st.Complete()) != c || len(st.CompleteSinks()) != c)) {
			return bad("send(%s): err=%v complete=%v sinks=%v; model: registered=%v pipelines=%d thr=%d thrSinks=%d", t, err, st.Complete(), st.CompleteSinks(), m.exists, c, m.thr, m.thrS)
		}
	}
	// after every step: every getter agrees with the model for every type
	for _, ty := range []string{"t1", "t2"} {
		mm := in.m[ty]
		a, ok1 := in.b.SuccessThreshold(el.EventType(ty))
		b, ok2 := in.b.SuccessThresholdSinks(el.EventType(ty))
		wa, wb := mm.thr, mm.thrS
		if !mm.exists {
			wa, wb = 0, 0
		}
		if !mm.set && !mm.pipe {
			// never set, no pipeline: whether the type counts as "registered" is not part of the property
			if a != 0 || b != 0 {
				return bad("after %q: thresholds of %s read %d/%d although none was ever set", op, ty, a, b)
			}
			continue
		}
		if a != wa || b != wb || ok1 != mm.exists || ok2 != mm.exists {
			return bad("after %q: thresholds of %s read (%d,%v)/(%d,%v), model says (%d,%d,registered=%v)", op, ty, a, ok1, b, ok2, wa, wb, mm.exists)
		}
	}
	return fmt.Sprintf("%v", *in.m["t1"]) + fmt.Sprintf("%v", *in.m["t2"]), ""
}

func (in *thrInst) Key() string {
	return vrt.Dump(in.b, nil) + fmt.Sprintf("|%v|%v", *in.m["t1"], *in.m["t2"])
}

var thrHarness = &seqmc.Harness{
	Property: prop,
	Configs: func(tier string) []seqmc.Config {
		d := 4
		if tier == "thorough" {
			d = 6
		}
		return []seqmc.Config{{Name: "threshold-api", Alphabet: thrAlphabet(), Depth: d}}
	},
	New: func(tier string, cfg int) seqmc.Instance { return newThrInst() },
}

func main() {
	hk.Main(&hk.Check{
		ID: prop,
		Scenarios: func(tier string) []string {
			var n []string
			for _, s := range scenarios(tier) {
				n = append(n, s.Name)
			}
			n = append(n, "BFS threshold-api")
			for _, c := range firstUseScenarios() {
				n = append(n, c.Name)
			}
			return n
		},
		SplitScenario: func(tier string, scn int) bool { return scn < len(scenarios(tier)) },
		RunJob: func(tier string, job hk.Job, deadline time.Time) *hk.Result {
			scs := scenarios(tier)
			if job.Scn > len(scs) {
				c := firstUseScenarios()[job.Scn-len(scs)-1]
				ex := &vrt.Explorer{Bound: -1, Permute: true, Body: firstUseBody(c)}
				return hk.ExploreJob(prop, job, deadline, ex, c.Name)
			}
			if job.Scn >= len(scs) {
				j := job
				j.Scn = 0
				r := seqmc.RunJob(thrHarness, tier, j, deadline)
				for i := range r.ChildKeys {
					r.ChildKeys[i] = "thr" + r.ChildKeys[i]
				}
				for i := range r.Violations {
					r.Violations[i].Scn = job.Scn
				}
				return r
			}
			sc := scs[job.Scn]
			ex := &vrt.Explorer{Bound: sc.Bound, Body: body(sc)}
			return hk.ExploreJob(prop, job, deadline, ex, sc.Describe())
		},
		Rule: "(a) outcome vectors (sink-ok / filtered / formatter-drop / error at root / error at sink / sink passing the event / sink failing with its own error that wraps context.DeadlineExceeded while Send's context is alive) of 1..3 pipelines x both thresholds over the full square -1(unset),0..P+1 (P<=2) or the boundary pairs around the vector's own counts (P=3) x shared sink ids x context never cancelled / cancelled at every scheduling point / cancelled before the call, all schedules within the preemption bound; oracle: Status ids, complete-sinks, warnings (pointer-equal to the nodes' own errors), completes+warnings=pipelines without cancel, error iff a threshold is missed, errors.Is(ctx.Err()) when entries are missing. (b) BFS over the threshold API (setters with -1..2 and an empty type, getters, RegisterPipeline, RemovePipeline, RemovePipelineAndNodes, Send on two event types) against a reference model, every getter compared after every step. (c) two first uses of an event type racing (setter || setter, setter || RegisterPipeline), ALL interleavings: both thresholds read back as set and the pipeline receives events.",
		Assumptions: []string{
			"traversal ends are reconstructed from the recording nodes' log by the C01 matching; a C01 failure is reported as such",
			"'error wraps the context error' is only demanded when the Status shows missing entries or the context was cancelled before the call (otherwise the cancel may land after Send read ctx.Err())",
		},
		QuickBudget:    300 * time.Second,
		ThoroughBudget: 60 * time.Minute,
	})
}
