package main

import (
	"bytes"
	"context"
	"fmt"
	"sort"
	"strings"
	"time"

	el "github.com/hashicorp/eventlogger"
	"github.com/hashicorp/eventlogger/filters/encrypt"
	wrapping "github.com/hashicorp/go-kms-wrapping/v2"
	"github.com/hashicorp/go-kms-wrapping/v2/aead"
	"verif/hk"
	"verif/seqmc"
	"verif/shapes"
	"verif/vrt"
)

func init() { shapes.Light = true }

const rule = "(a) the shape enumeration of C09 (reduced: depth 2 quick / 3 thorough, all 64 override maps at depth 1) with the crypto oracle: every value the filter encrypted is stripped of its prefix, base64url-decoded, unmarshalled as BlobInfo and decrypted with the wrapper in force, every HMAC is recomputed with x/crypto hkdf + crypto/hmac under the key/salt/info in force. (b) key contexts: values {empty, ascii, non-UTF-8, 200 bytes} x {string, []byte} x {encrypt, hmac} x filter salt/info {nil, set} x event {plain, EventWrapperInfo with id only / id+salt / id+info / id+both / empty id; the EventWrapperInfo payload also carries the protected fields inside a struct value, a pointer, slices of structs and of pointers, nested pointers and string slices, and a second payload kind that is an EventWrapperInfo and a Taggable struct at once}: per-event wrapper (derivation checked for determinism and for differing between ids), per-event salt/info precedence, equal inputs give equal digests. (c) BFS over all histories up to depth 3 (4 thorough) of {Rotate(any non-empty subset of wrapper/salt/info), rotation payload (same subsets), event, EventWrapperInfo event}: every event after a rotation verifies under the model's new material. (d) Rotate || Process || Process, all schedules within the preemption bound under the race detector: every protected value verifies wholly under the old or the new key."

var assumptions = []string{
	"AES-GCM, HKDF and HMAC from the standard / x/crypto libraries are the independent oracles",
	"the per-event wrapper is re-derived with the library's exported NewEventWrapper; its determinism and id-dependence are checked separately",
	"a value redacted where encryption was dictated is counted, not judged by this property",
}

// ---- (b) key contexts ------------------------------------------------------------------

type ewPayload struct {
	id         string
	salt, info []byte
	S          string `class:"sensitive,encrypt"`
	B          []byte `class:"sensitive,encrypt"`
	HS         string `class:"sensitive,hmac-sha256"`
	HB         []byte `class:"sensitive,hmac-sha256"`
	HS2        string `class:"secret,hmac-sha256"`
	// the same key material must reach every container the walk descends into
	Nest   ewNest
	PNest  *ewNest
	Slice  []ewNest
	PSlice []*ewNest
	Strs   []string `class:"sensitive,encrypt"`
	HStrs  []string `class:"secret,hmac-sha256"`
}

// ewTagged names an event id AND is a Taggable struct: class-tagged fields next to a pointer-tagged map.
type ewTagged struct {
	id         string
	salt, info []byte
	Name       string `class:"sensitive,encrypt"`
	HN         string `class:"secret,hmac-sha256"`
	Attrs      map[string]interface{}
}

func (p *ewTagged) EventId() string  { return p.id }
func (p *ewTagged) HmacSalt() []byte { return p.salt }
func (p *ewTagged) HmacInfo() []byte { return p.info }
func (p *ewTagged) Tags() ([]encrypt.PointerTag, error) {
	return []encrypt.PointerTag{
		{Pointer: "/Attrs/k", Classification: encrypt.SensitiveClassification, Filter: encrypt.EncryptOperation},
		{Pointer: "/Attrs/h", Classification: encrypt.SecretClassification, Filter: encrypt.HmacSha256Operation},
	}, nil
}

type ewNest struct {
	S  string `class:"sensitive,encrypt"`
	HS string `class:"secret,hmac-sha256"`
	In *ewNest
}

func newEwPayload(id string, salt, info []byte, val string) *ewPayload {
	n := func() ewNest { return ewNest{S: val, HS: val, In: &ewNest{S: val, HS: val}} }
	n1, n2 := n(), n()
	return &ewPayload{id: id, salt: salt, info: info, S: val, B: []byte(val), HS: val, HB: []byte(val), HS2: val,
		Nest: n(), PNest: &n1, Slice: []ewNest{n(), n()}, PSlice: []*ewNest{&n2}, Strs: []string{val, val}, HStrs: []string{val}}
}

// nested lists the (name, encrypted value, hmac value) triples of the containers of an ewPayload.
func (p *ewPayload) nested() (enc, mac map[string]string) {
	enc, mac = map[string]string{}, map[string]string{}
	var add func(name string, n *ewNest)
	add = func(name string, n *ewNest) {
		if n == nil {
			return
		}
		enc[name+".S"], mac[name+".HS"] = n.S, n.HS
		add(name+".In", n.In)
	}
	add("Nest", &p.Nest)
	add("PNest", p.PNest)
	for i := range p.Slice {
		add(fmt.Sprintf("Slice[%d]", i), &p.Slice[i])
	}
	for i := range p.PSlice {
		add(fmt.Sprintf("PSlice[%d]", i), p.PSlice[i])
	}
	for i, v := range p.Strs {
		enc[fmt.Sprintf("Strs[%d]", i)] = v
	}
	for i, v := range p.HStrs {
		mac[fmt.Sprintf("HStrs[%d]", i)] = v
	}
	return
}

func (p *ewPayload) EventId() string  { return p.id }
func (p *ewPayload) HmacSalt() []byte { return p.salt }
func (p *ewPayload) HmacInfo() []byte { return p.info }

type plainPayload struct {
	S   string `class:"sensitive,encrypt"`
	B   []byte `class:"sensitive,encrypt"`
	HS  string `class:"sensitive,hmac-sha256"`
	HB  []byte `class:"sensitive,hmac-sha256"`
	HS2 string `class:"secret,hmac-sha256"`
}

type encOnly struct {
	S string `class:"sensitive,encrypt"`
	B []byte `class:"sensitive,encrypt"`
}

var values = []string{"", "ascii value", "non\xff\xfeutf8\x00", strings.Repeat("0123456789", 20)}

type keyMaterial struct {
	w          *aead.Wrapper
	salt, info []byte
}

func keyBytes(w *aead.Wrapper) []byte {
	b, _ := w.KeyBytes(context.Background())
	return b
}

// verify checks the five protected fields of an output payload against the
// material in force. With ev != "" the per-event wrapper applies.
func verify(out interface{}, val string, base keyMaterial, evID string, evSalt, evInfo []byte) string {
	var s, hs, hs2 string
	var b, hb []byte
	moreEnc, moreMac := map[string]string{}, map[string]string{}
	switch p := out.(type) {
	case *ewTagged:
		k, _ := p.Attrs["k"].(string)
		h, _ := p.Attrs["h"].(string)
		s, b, hs, hb, hs2 = p.Name, []byte(k), p.HN, []byte(h), p.HN
	case *ewPayload:
		s, b, hs, hb, hs2 = p.S, p.B, p.HS, p.HB, p.HS2
		moreEnc, moreMac = p.nested()
	case *plainPayload:
		s, b, hs, hb, hs2 = p.S, p.B, p.HS, p.HB, p.HS2
	default:
		return fmt.Sprintf("output payload changed type to %T", out)
	}
	var w wrapping.Wrapper = base.w
	kb := keyBytes(base.w)
	salt, info := base.salt, base.info
	if evID != "" {
		ew, err := encrypt.NewEventWrapper(context.Background(), base.w, evID)
		if err != nil {
			return "NewEventWrapper: " + err.Error()
		}
		w = ew
		kb = keyBytes(ew.(*aead.Wrapper))
		if evSalt != nil {
			salt = evSalt
		}
		if evInfo != nil {
			info = evInfo
		}
	}
	encs := map[string]string{"S": s, "B": string(b)}
	if val == "" {
		// "all byte strings incl. empty": an empty string is protected like any other value (it decrypts to
		// the empty string, its digest is the digest of the empty string); an empty or nil []byte may stay empty
		delete(encs, "B")
		if len(b) != 0 {
			encs["B"] = string(b)
		}
		if len(hb) == 0 {
			hb = []byte(shapes.HmacOf(kb, salt, info, nil))
		}
	}
	for k, v := range moreEnc {
		encs[k] = v
	}
	for _, name := range sortedKeys(encs) {
		got := encs[name]
		pt, err := shapes.Decrypt(w, got)
		if err != nil {
			return fmt.Sprintf("field %s does not decrypt under the wrapper in force (event id %q): %v (value %q)", name, evID, err, trunc(got))
		}
		if string(pt) != val {
			return fmt.Sprintf("field %s decrypts to %q, original %q", name, pt, val)
		}
	}
	want := shapes.HmacOf(kb, salt, info, []byte(val))
	macs := map[string]string{"HS": hs, "HB": string(hb), "HS2": hs2}
	for k, v := range moreMac {
		macs[k] = v
	}
	for _, name := range sortedKeys(macs) {
		got := macs[name]
		if got != want {
			return fmt.Sprintf("field %s = %q, HMAC-SHA256 of the original under the key/salt/info in force (event id %q salt %q info %q) is %q", name, trunc(got), evID, salt, info, want)
		}
	}
	return ""
}

func sortedKeys(m map[string]string) []string {
	var ks []string
	for k := range m {
		ks = append(ks, k)
	}
	sort.Strings(ks)
	return ks
}

func trunc(s string) string {
	if len(s) > 48 {
		return s[:48] + "…"
	}
	return s
}

func keyContexts() *hk.Result {
	res := &hk.Result{}
	base := shapes.NewWrapper(7)
	ctx := context.Background()
	add := func(name, v string) bool {
		res.Add("execs", 1)
		res.Add("steps", 1)
		res.Add("nodes", 1)
		res.Outcome(name)
		if v != "" {
			return res.AddViolation(prop, hk.Viol{Name: name, Kind: "oracle", Detail: name + ": " + v})
		}
		return true
	}
	// derivation is deterministic and id-dependent
	w1, _ := encrypt.NewEventWrapper(ctx, base, "id-1")
	w1b, _ := encrypt.NewEventWrapper(ctx, base, "id-1")
	w2, _ := encrypt.NewEventWrapper(ctx, base, "id-2")
	if !bytes.Equal(keyBytes(w1.(*aead.Wrapper)), keyBytes(w1b.(*aead.Wrapper))) {
		add("derivation", "NewEventWrapper is not deterministic for equal (wrapper, event id)")
	}
	if bytes.Equal(keyBytes(w1.(*aead.Wrapper)), keyBytes(w2.(*aead.Wrapper))) || bytes.Equal(keyBytes(w1.(*aead.Wrapper)), keyBytes(base)) {
		add("derivation", "per-event keys do not depend on the event id / equal the base key")
	}
	// a wrapper that is not one of the key-exposing kinds (here: a decorator around the aead wrapper): HMAC
	// keys are derived from the wrapper's secret key bytes or not at all - the event fails, or its digests
	// are the ones under the decorated wrapper's key; never digests under a key made from public data
	for _, val := range values {
		deco := &shapes.FailingWrapper{Wrapper: base, FailAt: 0}
		p := &plainPayload{S: val, B: []byte(val), HS: val, HB: []byte(val), HS2: val}
		out, err := (&encrypt.Filter{Wrapper: deco, HmacSalt: []byte("s"), HmacInfo: []byte("i")}).Process(ctx, &el.Event{Type: "t", Payload: p})
		name := fmt.Sprintf("decorated wrapper val=%q", trunc(val))
		if err != nil && out == nil {
			add(name, "")
		} else if err != nil || out == nil {
			add(name, fmt.Sprintf("Process returned (forwarded=%v, err=%v)", out != nil, err))
		} else if !add(name, verify(out.Payload, val, keyMaterial{base, []byte("s"), []byte("i")}, "", nil, nil)) {
			return res
		}
		ep := newEwPayload("ev-1", nil, nil, val)
		out, err = (&encrypt.Filter{Wrapper: deco, HmacSalt: []byte("s"), HmacInfo: []byte("i")}).Process(ctx, &el.Event{Type: "t", Payload: ep})
		if err != nil && out == nil {
			add(name+" event-wrapper", "")
		} else if err != nil || out == nil {
			add(name+" event-wrapper", fmt.Sprintf("Process returned (forwarded=%v, err=%v)", out != nil, err))
		} else if !add(name+" event-wrapper", verify(out.Payload, val, keyMaterial{base, []byte("s"), []byte("i")}, "ev-1", nil, nil)) {
			return res
		}
	}
	for _, val := range values {
		for _, fsalt := range [][]byte{nil, []byte("filter-salt")} {
			for _, finfo := range [][]byte{nil, []byte("filter-info")} {
				km := keyMaterial{base, fsalt, finfo}
				mk := func() *encrypt.Filter { return &encrypt.Filter{Wrapper: base, HmacSalt: fsalt, HmacInfo: finfo} }
				// plain event
				p := &plainPayload{S: val, B: []byte(val), HS: val, HB: []byte(val), HS2: val}
				out, err := mk().Process(ctx, &el.Event{Type: "t", Payload: p})
				name := fmt.Sprintf("plain val=%q salt=%q info=%q", trunc(val), fsalt, finfo)
				if err != nil || out == nil {
					add(name, fmt.Sprintf("Process failed: %v", err))
				} else if !add(name, verify(out.Payload, val, km, "", nil, nil)) {
					return res
				}
				for _, ev := range []struct {
					id         string
					salt, info []byte
				}{{"ev-1", nil, nil}, {"ev-1", []byte("ev-salt"), nil}, {"ev-1", nil, []byte("ev-info")}, {"ev-2", []byte("ev-salt"), []byte("ev-info")}, {"ev-3", []byte{}, []byte{}}, {"", nil, nil},
					// an event id is an opaque string: blanks, case and odd bytes are part of it
					{"ev-1 ", nil, nil}, {" ", nil, nil}, {"EV-1", nil, []byte("ev-info")}, {"ev-1\x00\n\u00e9", []byte("ev-salt"), nil}} {
					ep := newEwPayload(ev.id, ev.salt, ev.info, val)
					out, err := mk().Process(ctx, &el.Event{Type: "t", Payload: ep})
					name := fmt.Sprintf("event-wrapper id=%q evsalt=%q evinfo=%q val=%q salt=%q info=%q", ev.id, ev.salt, ev.info, trunc(val), fsalt, finfo)
					if ev.id == "" {
						if err == nil || out != nil {
							add(name, "an EventWrapperInfo payload without an event id must be rejected")
						} else {
							add(name, "")
						}
						continue
					}
					if err != nil || out == nil {
						add(name, fmt.Sprintf("Process failed: %v", err))
						continue
					}
					if !add(name, verify(out.Payload, val, km, ev.id, ev.salt, ev.info)) {
						return res
					}
					// the same event id on a payload that is also a Taggable struct
					tp := &ewTagged{id: ev.id, salt: ev.salt, info: ev.info, Name: val, HN: val, Attrs: map[string]interface{}{"k": val, "h": val}}
					out, err = mk().Process(ctx, &el.Event{Type: "t", Payload: tp})
					if err != nil || out == nil {
						add(name+" taggable", fmt.Sprintf("Process failed: %v", err))
						continue
					}
					if !add(name+" taggable", verify(out.Payload, val, km, ev.id, ev.salt, ev.info)) {
						return res
					}
				}
			}
		}
	}
	res.Samples = append(res.Samples, "event-wrapper id=ev-1 evsalt=ev-salt val=ascii value filter salt=filter-salt")
	return res
}

// ---- (c) rotation histories -----------------------------------------------------------------

type rotP struct {
	w          wrapping.Wrapper
	salt, info []byte
}

func (r *rotP) Wrapper() wrapping.Wrapper {
	if r.w == nil {
		return nil
	}
	return r.w
}

// rotPW rotates to any wrapper implementation.
type rotPW struct{ w wrapping.Wrapper }

func (r *rotPW) Wrapper() wrapping.Wrapper { return r.w }
func (r *rotPW) HmacSalt() []byte          { return nil }
func (r *rotPW) HmacInfo() []byte          { return nil }
func (r *rotP) HmacSalt() []byte          { return r.salt }
func (r *rotP) HmacInfo() []byte          { return r.info }

type rotInst struct {
	f   *encrypt.Filter
	cur keyMaterial
	gen byte
	// flaky: the wrapper in force is wrapped in a FailingWrapper whose first call fails
	flaky *shapes.FailingWrapper
}

func newRotInst() *rotInst {
	w := shapes.NewWrapper(1)
	return &rotInst{f: &encrypt.Filter{Wrapper: w, HmacSalt: []byte("s0"), HmacInfo: []byte("i0")}, cur: keyMaterial{w, []byte("s0"), []byte("i0")}, gen: 1}
}

func rotAlphabet() []string {
	var a []string
	for _, kind := range []string{"rot", "rotp"} {
		for sub := 1; sub <= 7; sub++ {
			a = append(a, fmt.Sprintf("%s %d", kind, sub))
		}
	}
	// rotfail / rotpfail: the wrapper rotated in fails at its first call (a KMS that cannot be reached yet):
	// the event that meets the failure fails, it is never protected with the wrapper that was rotated out
	return append(a, "event", "event-ew", "rotfail", "rotpfail")
}

func (in *rotInst) Apply(op string) (string, string) {
	ctx := context.Background()
	f := strings.Fields(op)
	switch f[0] {
	case "rot", "rotp":
		var sub int
		fmt.Sscanf(f[1], "%d", &sub)
		in.gen++
		var w *aead.Wrapper
		var salt, info []byte
		if sub&1 != 0 {
			w = shapes.NewWrapper(in.gen)
		}
		if sub&2 != 0 {
			salt = []byte(fmt.Sprintf("s%d", in.gen))
		}
		if sub&4 != 0 {
			info = []byte(fmt.Sprintf("i%d", in.gen))
		}
		if f[0] == "rot" {
			var opts []encrypt.Option
			if w != nil {
				opts = append(opts, encrypt.WithWrapper(w))
			}
			if salt != nil {
				opts = append(opts, encrypt.WithSalt(salt))
			}
			if info != nil {
				opts = append(opts, encrypt.WithInfo(info))
			}
			in.f.Rotate(opts...)
		} else {
			rp := &rotP{salt: salt, info: info}
			if w != nil {
				rp.w = w
			}
			out, err := in.f.Process(ctx, &el.Event{Type: "t", Payload: rp})
			if out != nil || err != nil {
				return "", fmt.Sprintf("a rotation payload must be consumed: got (%v, %v)", out, err)
			}
		}
		if w != nil {
			in.cur.w, in.flaky = w, nil
		}
		if salt != nil {
			in.cur.salt = salt
		}
		if info != nil {
			in.cur.info = info
		}
		return "rotated", ""
	case "rotfail", "rotpfail":
		in.gen++
		w := shapes.NewWrapper(in.gen)
		fw := &shapes.FailingWrapper{Wrapper: w, FailAt: 1}
		if f[0] == "rotfail" {
			in.f.Rotate(encrypt.WithWrapper(fw))
		} else {
			out, err := in.f.Process(ctx, &el.Event{Type: "t", Payload: &rotPW{w: fw}})
			if out != nil || err != nil {
				return "", fmt.Sprintf("a rotation payload must be consumed: got (%v, %v)", out, err)
			}
		}
		in.cur.w, in.flaky = w, fw
		return "rotated-to-flaky", ""
	case "event":
		val := "value-A"
		p := &plainPayload{S: val, B: []byte(val), HS: val, HB: []byte(val), HS2: val}
		if in.flaky != nil {
			// (HMAC keys can only be derived from a plain aead wrapper, so this event has encrypted fields only)
			ep := &encOnly{S: val, B: []byte(val)}
			out, err := in.f.Process(ctx, &el.Event{Type: "t", Payload: ep})
			_, v := in.metFailure(out, err)
			return "event-failed", v
		}
		out, err := in.f.Process(ctx, &el.Event{Type: "t", Payload: p})
		if err != nil || out == nil {
			return "", fmt.Sprintf("Process failed: %v", err)
		}
		return "event", verify(out.Payload, val, in.cur, "", nil, nil)
	case "event-ew":
		val := "value-B"
		p := newEwPayload("ev-9", []byte("es"), nil, val)
		out, err := in.f.Process(ctx, &el.Event{Type: "t", Payload: p})
		if in.flaky != nil && err != nil && out == nil {
			// the per-event wrapper is derived from the wrapper in force, which here is not a plain aead
			// wrapper: refusing the event is right (whether it must be refused is not judged)
			return "event-ew-refused", ""
		}
		if err != nil || out == nil {
			return "", fmt.Sprintf("Process failed: %v", err)
		}
		return "event-ew", verify(out.Payload, val, in.cur, "ev-9", []byte("es"), nil)
	}
	return "", "unknown op"
}

// metFailure: the wrapper in force had its failing call still ahead when this event came: the event met it
// and must have failed as a whole (nothing forwarded - in particular nothing protected with the wrapper
// that was rotated out); from then on the wrapper works.
func (in *rotInst) metFailure(out *el.Event, err error) (bool, string) {
	fw := in.flaky
	if fw == nil {
		return false, ""
	}
	// from now on the wrapper works; what it protects is what its inner aead wrapper protects
	in.f.Rotate(encrypt.WithWrapper(fw.Wrapper))
	in.flaky = nil
	if !fw.Failed {
		return true, "harness: an event with protected fields never called the wrapper in force"
	}
	if err == nil || out != nil {
		return true, fmt.Sprintf("the wrapper in force failed while this event was filtered, yet Process returned (forwarded=%v, err=%v): the event must fail, not be protected with another key", out != nil, err)
	}
	return true, ""
}

// Key: the filter's entire private state (so that an implementation-side cache
// or counter distinguishes histories) plus the model's material in force.
func (in *rotInst) Key() string {
	kid, _ := in.cur.w.KeyId(context.Background())
	return vrt.Dump(in.f, nil) + fmt.Sprintf(" || %s|%s|%s", kid, in.cur.salt, in.cur.info)
}

var rotHarness = &seqmc.Harness{
	Property: prop,
	Configs: func(tier string) []seqmc.Config {
		d := 3
		if tier == "thorough" {
			d = 4
		}
		return []seqmc.Config{{Name: "rotation histories", Alphabet: rotAlphabet(), Depth: d}}
	},
	New: func(tier string, cfg int) seqmc.Instance { return newRotInst() },
}

// ---- (d) Rotate || Process || Process --------------------------------------------------------

type concSc struct {
	NilOld bool // the filter starts without salt and info
	Name   string
	Rot    string // rotate | rotp
	Procs  int
	Bound  int
	EW     bool
	NoWrap bool
}

func concScenarios(tier string) []concSc {
	b := 2
	if tier == "thorough" {
		b = 3
	}
	out := []concSc{
		{Rot: "rotate", Procs: 1, Bound: b + 1},
		{Rot: "rotate", Procs: 2, Bound: b},
		{Rot: "rotp", Procs: 1, Bound: b + 1},
		{Rot: "rotp", Procs: 2, Bound: b},
		{Rot: "rotate", Procs: 1, Bound: b + 1, EW: true},
		{Rot: "rotate", Procs: 1, Bound: b + 1, NoWrap: true},
		{Rot: "rotate", Procs: 1, Bound: b + 1, EW: true, NilOld: true},
		{Rot: "rotp", Procs: 1, Bound: b + 1, EW: true, NilOld: true},
		{Rot: "rotate", Procs: 2, Bound: b, NilOld: true},
	}
	for i := range out {
		out[i].Name = fmt.Sprintf("concurrent %s || %d x Process (event-wrapper=%v, filter starts without wrapper=%v, without salt/info=%v)", out[i].Rot, out[i].Procs, out[i].EW, out[i].NoWrap, out[i].NilOld)
	}
	return out
}

type tick struct{ t int }

//go:norace
func (c *tick) next() int { c.t++; return c.t }

func concBody(c concSc) func() string {
	return func() string {
		ctx := context.Background()
		oldM := keyMaterial{shapes.NewWrapper(1), []byte("s-old"), []byte("i-old")}
		if c.NilOld {
			oldM.salt, oldM.info = nil, nil
		}
		newM := keyMaterial{shapes.NewWrapper(2), []byte("s-new"), []byte("i-new")}
		f := &encrypt.Filter{Wrapper: oldM.w, HmacSalt: oldM.salt, HmacInfo: oldM.info}
		if c.NoWrap {
			f.Wrapper = nil
			f.FilterOperationOverrides = map[encrypt.DataClassification]encrypt.FilterOperation{encrypt.SensitiveClassification: encrypt.RedactOperation}
		}
		// real-time order: an event whose Process call starts after the rotation has returned uses the new
		// material, whatever else is still in flight
		clk := &tick{}
		rotRet := 0
		procCall := make([]int, c.Procs)
		vrt.GoNamed("rotator", func() {
			defer func() { rotRet = clk.next() }()
			if c.Rot == "rotate" {
				f.Rotate(encrypt.WithWrapper(newM.w), encrypt.WithSalt(newM.salt), encrypt.WithInfo(newM.info))
			} else {
				out, err := f.Process(ctx, &el.Event{Type: "t", Payload: &rotP{w: newM.w, salt: newM.salt, info: newM.info}})
				if out != nil || err != nil {
					vrt.Fail("rotation payload not consumed: (%v, %v)", out, err)
				}
			}
		})
		outs := make([]interface{}, c.Procs)
		errs := make([]error, c.Procs)
		for i := 0; i < c.Procs; i++ {
			i := i
			vrt.GoNamed(fmt.Sprintf("proc%d", i), func() {
				val := "value-C"
				var p interface{} = &plainPayload{S: val, B: []byte(val), HS: val, HB: []byte(val), HS2: val}
				if c.EW {
					p = &ewPayload{id: "ev-7", S: val, B: []byte(val), HS: val, HB: []byte(val), HS2: val}
				}
				procCall[i] = clk.next()
				out, err := f.Process(ctx, &el.Event{Type: "t", Payload: p})
				errs[i] = err
				if out != nil {
					outs[i] = out.Payload
				}
			})
		}
		vrt.Join()
		sig := ""
		for i := 0; i < c.Procs; i++ {
			if errs[i] != nil {
				if c.NoWrap {
					sig += "err "
					continue
				}
				vrt.Fail("Process %d failed under concurrent rotation: %v", i, errs[i])
			}
			if c.NoWrap {
				sig += "ok "
				continue
			}
			id := ""
			if c.EW {
				id = "ev-7"
			}
			// each individual value must verify wholly under the old or the new material
			p := outs[i]
			okAll := true
			for _, field := range []string{"S", "B", "HS", "HB", "HS2"} {
				if vOld, vNew := verifyField(p, field, "value-C", oldM, id), verifyField(p, field, "value-C", newM, id); vOld != "" && vNew != "" {
					mixed := verifyMixed(p, field, "value-C", oldM, newM, id)
					if mixed {
						vrt.Fail("Process %d: field %s is protected with a mix of old and new key material (neither wholly old nor wholly new)", i, field)
					}
					vrt.Fail("Process %d: field %s verifies under neither the old nor the new key: old: %s; new: %s", i, field, vOld, vNew)
					okAll = false
				} else if vOld == "" {
					if rotRet != 0 && procCall[i] > rotRet {
						vrt.Fail("Process %d was called after the rotation had returned, yet its field %s is protected with the OLD key material", i, field)
					}
					sig += "o"
				} else {
					sig += "n"
				}
			}
			_ = okAll
			sig += " "
		}
		return sig
	}
}

func fieldOf(p interface{}, field string) string {
	switch x := p.(type) {
	case *plainPayload:
		return map[string]string{"S": x.S, "B": string(x.B), "HS": x.HS, "HB": string(x.HB), "HS2": x.HS2}[field]
	case *ewPayload:
		return map[string]string{"S": x.S, "B": string(x.B), "HS": x.HS, "HB": string(x.HB), "HS2": x.HS2}[field]
	}
	return ""
}

func material(m keyMaterial, id string) (wrapping.Wrapper, []byte) {
	if id == "" {
		return m.w, keyBytes(m.w)
	}
	ew, _ := encrypt.NewEventWrapper(context.Background(), m.w, id)
	return ew, keyBytes(ew.(*aead.Wrapper))
}

func verifyField(p interface{}, field, val string, m keyMaterial, id string) string {
	got := fieldOf(p, field)
	w, kb := material(m, id)
	if field == "S" || field == "B" {
		pt, err := shapes.Decrypt(w, got)
		if err != nil {
			return err.Error()
		}
		if string(pt) != val {
			return "wrong plaintext"
		}
		return ""
	}
	if got != shapes.HmacOf(kb, m.salt, m.info, []byte(val)) {
		return "digest mismatch"
	}
	return ""
}

// verifyMixed: does an HMAC verify under some mixture (key from one, salt/info from the other)?
func verifyMixed(p interface{}, field, val string, a, b keyMaterial, id string) bool {
	if field == "S" || field == "B" {
		return false
	}
	got := fieldOf(p, field)
	for _, km := range []keyMaterial{a, b} {
		_, kb := material(km, id)
		for _, s := range [][]byte{a.salt, b.salt} {
			for _, i := range [][]byte{a.info, b.info} {
				if got == shapes.HmacOf(kb, s, i, []byte(val)) {
					return true
				}
			}
		}
	}
	return false
}

func extraScenarios(tier string) []string {
	n := []string{"key contexts", "BFS rotation histories"}
	for _, c := range concScenarios(tier) {
		n = append(n, c.Name)
	}
	return n
}

func runExtra(tier string, i int, job hk.Job, deadline time.Time) *hk.Result {
	switch {
	case i == 0:
		return keyContexts()
	case i == 1:
		j := job
		j.Scn = 0
		r := seqmc.RunJob(rotHarness, tier, j, deadline)
		for k := range r.ChildKeys {
			r.ChildKeys[k] = "rot" + r.ChildKeys[k]
		}
		return r
	default:
		c := concScenarios(tier)[i-2]
		ex := &vrt.Explorer{Bound: c.Bound, Body: concBody(c)}
		return hk.ExploreJob(prop, job, deadline, ex, c.Name)
	}
}
