// C14 — JSON formatters emit one faithful JSON line and never alter the event.
package main

import (
	"bytes"
	"context"
	"encoding/json"
	"errors"
	"fmt"
	"math"
	"reflect"
	"sort"
	"strings"
	"time"

	el "github.com/hashicorp/eventlogger"
	"verif/hk"
	"verif/vrt"
)

const prop = "C14"

// ---- value grammar --------------------------------------------------------------------

type desc struct {
	kind string // leaf | map | slice | struct | ptr
	leaf int
	kids []*desc
}

type pair struct {
	A interface{} `json:"a"`
	B interface{} `json:"b,omitempty"`
}

var sharedChan = make(chan int)
var sharedFunc = func() {}

type leafSpec struct {
	name string
	val  func() interface{}
	img  interface{} // expected decoded form
	ok   bool        // encodable
}

var leaves = []leafSpec{
	{"empty", func() interface{} { return "" }, "", true},
	{"ascii", func() interface{} { return "plain text" }, "plain text", true},
	{"ctrl", func() interface{} { return "q\"uo\\te\n\t\x01end" }, "q\"uo\\te\n\t\x01end", true},
	{"badutf8", func() interface{} { return "a\xff\xfeb" }, "a��b", true},
	{"html", func() interface{} { return "<>& " }, "<>& ", true},
	{"bigint", func() interface{} { return int64(9007199254740993) }, json.Number("9007199254740993"), true},
	{"neg", func() interface{} { return -1 }, json.Number("-1"), true},
	{"float", func() interface{} { return 1.5 }, json.Number("1.5"), true},
	{"nil", func() interface{} { return nil }, nil, true},
	{"true", func() interface{} { return true }, true, true},
	{"nan", func() interface{} { return math.NaN() }, nil, false},
	{"inf", func() interface{} { return math.Inf(1) }, nil, false},
	{"chan", func() interface{} { return sharedChan }, nil, false},
	{"func", func() interface{} { return sharedFunc }, nil, false},
	{"complex", func() interface{} { return complex(1, 2) }, nil, false},
}

func (d *desc) String() string {
	if d.kind == "leaf" {
		return leaves[d.leaf].name
	}
	var ks []string
	for _, k := range d.kids {
		ks = append(ks, k.String())
	}
	return d.kind + "(" + strings.Join(ks, ",") + ")"
}

func build(d *desc) interface{} {
	switch d.kind {
	case "leaf":
		return leaves[d.leaf].val()
	case "map":
		return map[string]interface{}{"k": build(d.kids[0])}
	case "slice":
		out := make([]interface{}, len(d.kids))
		for i, k := range d.kids {
			out[i] = build(k)
		}
		return out
	case "struct":
		return pair{A: build(d.kids[0]), B: build(d.kids[1])}
	case "ptr":
		v := build(d.kids[0])
		return &v
	}
	panic("bad desc")
}

// image is the expected decoded JSON value, written from the descriptor.
func image(d *desc) (interface{}, bool) {
	switch d.kind {
	case "leaf":
		return leaves[d.leaf].img, leaves[d.leaf].ok
	case "map":
		v, ok := image(d.kids[0])
		return map[string]interface{}{"k": v}, ok
	case "slice":
		out := make([]interface{}, len(d.kids))
		all := true
		for i, k := range d.kids {
			v, ok := image(k)
			out[i] = v
			all = all && ok
		}
		return out, all
	case "struct":
		a, oka := image(d.kids[0])
		b, okb := image(d.kids[1])
		m := map[string]interface{}{"a": a}
		if !(d.kids[1].kind == "leaf" && leaves[d.kids[1].leaf].name == "nil") {
			m["b"] = b
		}
		return m, oka && okb
	case "ptr":
		return image(d.kids[0])
	}
	panic("bad desc")
}

func leafDescs() []*desc {
	var out []*desc
	for i := range leaves {
		out = append(out, &desc{kind: "leaf", leaf: i})
	}
	return out
}

// level k+1 = containers over level k (width 1) plus width-2 combinations with leaves
func descs(tier string) []*desc {
	l0 := leafDescs()
	var l1 []*desc
	for _, a := range l0 {
		l1 = append(l1, &desc{kind: "map", kids: []*desc{a}}, &desc{kind: "slice", kids: []*desc{a}}, &desc{kind: "ptr", kids: []*desc{a}})
		for _, b := range l0 {
			l1 = append(l1, &desc{kind: "slice", kids: []*desc{a, b}}, &desc{kind: "struct", kids: []*desc{a, b}})
		}
	}
	var l2 []*desc
	for i, a := range l1 {
		l2 = append(l2, &desc{kind: "map", kids: []*desc{a}}, &desc{kind: "slice", kids: []*desc{a}}, &desc{kind: "ptr", kids: []*desc{a}})
		b := l0[i%len(l0)]
		l2 = append(l2, &desc{kind: "struct", kids: []*desc{a, b}}, &desc{kind: "slice", kids: []*desc{b, a}})
	}
	var l3 []*desc
	step := 7
	if tier == "thorough" {
		step = 1
	}
	for i := 0; i < len(l2); i += step {
		a := l2[i]
		l3 = append(l3, &desc{kind: "map", kids: []*desc{a}}, &desc{kind: "slice", kids: []*desc{a, l0[i%len(l0)]}}, &desc{kind: "ptr", kids: []*desc{a}}, &desc{kind: "struct", kids: []*desc{l0[(i+3)%len(l0)], a}})
	}
	out := append(append(append(l0, l1...), l2...), l3...)
	return out
}

var eventTypes = []el.EventType{"audit", `a"b\c`, "line\nbreak", "héllo✓<tag>", "ctl\x01\x7f\x1b", "bad\xffutf8", "\U000E0001\U0010FFFFrare"}

// typeImage is what a JSON string can carry of an event type: invalid UTF-8 is
// replaced by U+FFFD (as for payload strings), everything else round-trips.
func typeImage(t el.EventType) string { return strings.ToValidUTF8(string(t), "\uFFFD") }

func equalVals(a, b interface{}) bool {
	// DeepEqual except that NaN equals NaN and funcs/chans compare by identity
	return reflect.DeepEqual(norm(a), norm(b))
}

func norm(v interface{}) interface{} {
	switch x := v.(type) {
	case float64:
		if math.IsNaN(x) {
			return "NaN"
		}
	case func():
		return fmt.Sprintf("func:%p", x)
	case map[string]interface{}:
		m := map[string]interface{}{}
		for k, e := range x {
			m[k] = norm(e)
		}
		return m
	case []interface{}:
		s := make([]interface{}, len(x))
		for i, e := range x {
			s[i] = norm(e)
		}
		return s
	case pair:
		return pair{A: norm(x.A), B: norm(x.B)}
	case *interface{}:
		if x == nil {
			return nil
		}
		return []interface{}{"ptr", norm(*x)}
	}
	return v
}

var errPred = errors.New("predicate fails")

// stability: the bytes stored for an earlier event must not change when later
// events are formatted (a formatter may not keep writing into them)
type prevRec struct {
	e *el.Event
	b []byte
}

// one remembered event per node variant, so that the event a formatter produced
// is re-read after the SAME formatter type has formatted the next event
var prev = map[int]prevRec{}

func stable() string {
	for variant, p := range prev {
		b, ok := p.e.Format(el.JSONFormat)
		if !ok || !bytes.Equal(b, p.b) {
			return fmt.Sprintf("the json bytes stored for an earlier event (node variant %d) changed from %q to %q when another event was formatted", variant, p.b, b)
		}
	}
	return ""
}

func runCase(d *desc, typ el.EventType, variant int) string {
	v := runCaseInner(d, typ, variant, false)
	if v == "" && variant < 3 {
		if v = runCaseInner(d, typ, variant, true); v != "" {
			v = "(event arrived with stale json bytes) " + v
		}
	}
	if v == "" {
		v = stable()
	}
	return v
}

var otherKeys = []string{"JSON", "Json", "json ", "text", ""}

// one case: payload descriptor x event type x node variant
func runCaseInner(d *desc, typ el.EventType, variant int, prefill bool) string {
	created := time.Date(2024, 2, 29, 23, 59, 59, 123456789, time.FixedZone("X", 3*3600+1800))
	payload := build(d)
	twin := build(d)
	e := &el.Event{Type: typ, CreatedAt: created, Formatted: map[string][]byte{}, Payload: payload}
	if prefill {
		// the event already carries bytes under the json format (an earlier
		// formatter, a re-processed event): they must be replaced, not trusted
		e.FormattedAs(el.JSONFormat, []byte("{\"stale\":true}\n"))
		// ... and entries under other keys, also keys that differ from "json" only by case or blanks:
		// the table is keyed by the exact string, they are other formats and stay as they are
		for _, k := range otherKeys {
			e.FormattedAs(k, []byte("kept:"+k))
		}
	}
	var node el.Node
	wantForward, wantPredErr := true, false
	switch variant {
	case 0:
		node = &el.JSONFormatter{}
	case 1:
		node = &el.JSONFormatterFilter{}
	case 2:
		// a predicate may look at the event it is asked about (its format table is a concurrent-safe table)
		node = &el.JSONFormatterFilter{Predicate: func(interface{}) (bool, error) { e.Format("text"); e.FormattedAs("seen-by-predicate", nil); return true, nil }}
	case 3:
		node = &el.JSONFormatterFilter{Predicate: func(interface{}) (bool, error) { return false, nil }}
		wantForward = false
	case 4:
		node = &el.JSONFormatterFilter{Predicate: func(interface{}) (bool, error) { return false, errPred }}
		wantPredErr = true
	case 5:
		// an error is an error whatever the boolean next to it says
		node = &el.JSONFormatterFilter{Predicate: func(interface{}) (bool, error) { return true, errPred }}
		wantPredErr = true
	}
	out, err := node.Process(context.Background(), e)
	img, encodable := image(d)
	if !equalVals(e.Payload, twin) {
		return "the formatter altered the payload"
	}
	if e.Type != typ || !e.CreatedAt.Equal(created) {
		return "the formatter altered the event's type or creation time"
	}
	if !encodable {
		if err == nil || out != nil {
			return fmt.Sprintf("payload cannot be encoded but Process returned (%v, %v)", out, err)
		}
		if _, ok := e.Format(el.JSONFormat); ok && !prefill {
			return "payload cannot be encoded but bytes were stored under the json format"
		}
		return ""
	}
	if wantPredErr {
		if err == nil || out != nil {
			return fmt.Sprintf("the predicate returned an error but Process returned (%v, %v)", out, err)
		}
		return ""
	}
	if err != nil {
		return fmt.Sprintf("encodable payload, Process failed: %v", err)
	}
	if wantForward && out != e {
		return "the event was not forwarded (same event expected)"
	}
	if !wantForward && out != nil {
		return "the predicate returned false but the event was forwarded"
	}
	b, ok := e.Format(el.JSONFormat)
	if !ok {
		return "nothing stored under the json format"
	}
	if prefill {
		for _, k := range otherKeys {
			if v, ok := e.Format(k); !ok || string(v) != "kept:"+k {
				return fmt.Sprintf("the entry stored under the format key %q before the node ran is now %q (present=%v)", k, v, ok)
			}
		}
		delete(e.Formatted, "seen-by-predicate")
		if len(e.Formatted) != len(otherKeys)+1 {
			return fmt.Sprintf("the table has %d entries after the node ran, %d were expected", len(e.Formatted), len(otherKeys)+1)
		}
	}
	if len(b) == 0 || b[len(b)-1] != '\n' || bytes.Count(b, []byte("\n")) != 1 {
		return fmt.Sprintf("stored bytes are not a single newline-terminated line: %q", b)
	}
	dec := json.NewDecoder(bytes.NewReader(b))
	dec.UseNumber()
	var got map[string]interface{}
	if err := dec.Decode(&got); err != nil {
		return fmt.Sprintf("stored bytes are not valid JSON: %v (%q)", err, b)
	}
	if dec.More() {
		return "stored bytes hold more than one JSON value"
	}
	var keys []string
	for k := range got {
		keys = append(keys, k)
	}
	sort.Strings(keys)
	if fmt.Sprint(keys) != "[created_at event_type payload]" {
		return fmt.Sprintf("JSON members are %v, want exactly created_at, event_type, payload", keys)
	}
	ts, _ := got["created_at"].(string)
	pt, perr := time.Parse(time.RFC3339Nano, ts)
	if perr != nil || !pt.Equal(created) {
		return fmt.Sprintf("created_at %q does not decode back to the creation time", ts)
	}
	if et, _ := got["event_type"].(string); et != typeImage(typ) {
		return fmt.Sprintf("event_type %q does not decode back to %q", et, typ)
	}
	if !reflect.DeepEqual(got["payload"], img) {
		return fmt.Sprintf("payload member decodes to %#v, the JSON image of the payload is %#v", got["payload"], img)
	}
	if v := stable(); v != "" {
		return v
	}
	prev[variant] = prevRec{e, append([]byte(nil), b...)}
	// the same node formats another event: what it stored for this one must stay as it is (a node may keep
	// scratch state between events, the stored line must not be part of it)
	if wantForward {
		saved := append([]byte(nil), b...)
		e2 := &el.Event{Type: "second-event", CreatedAt: created.Add(time.Hour), Formatted: map[string][]byte{}, Payload: map[string]interface{}{"a-rather-different": "payload of the second event through the same node", "n": 123456789}}
		if _, err2 := node.Process(context.Background(), e2); err2 == nil {
			if now, _ := e.Format(el.JSONFormat); !bytes.Equal(now, saved) {
				return fmt.Sprintf("the json line stored for an event changed from %q to %q when the same node formatted the next event", saved, now)
			}
		}
	}
	return ""
}

func filterCases() string {
	for _, keep := range []int{0, 1, 2} {
		e := &el.Event{Type: "t", Payload: "p"}
		f := &el.Filter{Predicate: func(*el.Event) (bool, error) {
			switch keep {
			case 0:
				return false, nil
			case 1:
				return true, nil
			}
			return true, errPred
		}}
		out, err := f.Process(context.Background(), e)
		switch keep {
		case 0:
			if out != nil || err != nil {
				return "Filter with a false predicate must return (nil, nil)"
			}
		case 1:
			if out != e || err != nil {
				return "Filter with a true predicate must forward the same event"
			}
		case 2:
			if out != nil || !errors.Is(err, errPred) {
				return "Filter must return the predicate's error and forward nothing"
			}
		}
	}
	return ""
}

// ---- Event.FormattedAs / Format as a race-free last-writer-wins table -----------------

type tblOp struct {
	write bool
	key   string
	val   string
}

type tblCall struct {
	op        tblOp
	call, ret int
	got       string
	ok        bool
}

//go:norace
func setStr(p *string, v string) { *p = v }

type stamps struct{ t int }

//go:norace
func (s *stamps) tick() int { s.t++; return s.t }

var tblPrograms = [][][]tblOp{
	{{{true, "k1", "a"}, {false, "k1", ""}}, {{true, "k1", "b"}, {false, "k1", ""}}},
	{{{true, "k1", "a"}, {true, "k2", "x"}}, {{false, "k1", ""}, {false, "k2", ""}}, {{true, "k1", "b"}, {false, "k2", ""}}},
	{{{true, "k1", "a"}, {true, "k1", "c"}}, {{true, "k1", "b"}, {false, "k1", ""}}, {{false, "k1", ""}, {false, "k1", ""}}},
	{{{false, "k1", ""}, {true, "k2", "y"}}, {{true, "k2", "x"}, {false, "k2", ""}}, {{true, "k1", "a"}, {false, "k2", ""}}},
	// an empty and a nil value are values like any other: the last writer wins with them too
	{{{true, "k1", "a"}, {false, "k1", ""}}, {{true, "k1", ""}, {false, "k1", ""}}},
	{{{true, "k1", "<nil>"}, {false, "k1", ""}}, {{true, "k1", "b"}, {true, "k1", "<nil>"}, {false, "k1", ""}}},
	// keys are exact strings: "JSON" and "json" are two entries
	{{{true, "JSON", "a"}, {false, "json", ""}}, {{true, "json", "b"}, {false, "JSON", ""}}},
}

func tblBody(prog [][]tblOp, nilTable bool) func() string {
	return func() string {
		e := &el.Event{Type: "t"}
		if !nilTable {
			e.Formatted = map[string][]byte{}
		}
		clk := &stamps{}
		var calls []*tblCall
		for ti, ops := range prog {
			var mine []*tblCall
			for _, o := range ops {
				c := &tblCall{op: o}
				calls = append(calls, c)
				mine = append(mine, c)
			}
			vrt.GoNamed(fmt.Sprintf("T%d", ti), func() {
				for _, c := range mine {
					c.call = clk.tick()
					if c.op.write {
						if c.op.val == "<nil>" {
							e.FormattedAs(c.op.key, nil)
						} else {
							e.FormattedAs(c.op.key, []byte(c.op.val))
						}
					} else {
						b, ok := e.Format(c.op.key)
						c.got, c.ok = string(b), ok
					}
					c.ret = clk.tick()
				}
			})
		}
		vrt.Join()
		// brute-force linearizability against a plain map
		n := len(calls)
		perm := make([]int, 0, n)
		used := make([]bool, n)
		found := false
		var rec func()
		rec = func() {
			if found {
				return
			}
			if len(perm) == n {
				for i := 0; i < n; i++ {
					for j := i + 1; j < n; j++ {
						if calls[perm[j]].ret < calls[perm[i]].call {
							return
						}
					}
				}
				m := map[string]string{}
				for _, k := range perm {
					c := calls[k]
					if c.op.write {
						m[c.op.key] = strings.TrimPrefix(c.op.val, "<nil>")
					} else {
						v, ok := m[c.op.key]
						if v != c.got || ok != c.ok {
							return
						}
					}
				}
				found = true
				return
			}
			for i := 0; i < n; i++ {
				if !used[i] {
					used[i] = true
					perm = append(perm, i)
					rec()
					perm = perm[:len(perm)-1]
					used[i] = false
				}
			}
		}
		rec()
		var sig []string
		for _, c := range calls {
			if !c.op.write {
				sig = append(sig, fmt.Sprintf("%s=%s/%v", c.op.key, c.got, c.ok))
			}
		}
		if !found {
			vrt.Fail("FormattedAs/Format results %v are not those of any last-writer-wins table consistent with the calls' real-time order", sig)
		}
		return strings.Join(sig, " ")
	}
}

func main() {
	const chunk = 400
	hk.Main(&hk.Check{
		ID: prop,
		Scenarios: func(tier string) []string {
			n := []string{}
			ds := descs(tier)
			for i := 0; i < len(ds); i += chunk {
				n = append(n, fmt.Sprintf("payload descriptors %d..%d", i, min(i+chunk, len(ds))-1))
			}
			n = append(n, "Filter truth table")
			for i := range tblPrograms {
				n = append(n, fmt.Sprintf("FormattedAs/Format program %d", i), fmt.Sprintf("FormattedAs/Format program %d (nil table)", i))
			}
			return n
		},
		RunJob: func(tier string, job hk.Job, deadline time.Time) *hk.Result {
			ds := descs(tier)
			nChunks := (len(ds) + chunk - 1) / chunk
			res := &hk.Result{}
			switch {
			case job.Scn < nChunks:
				for i := job.Scn * chunk; i < min((job.Scn+1)*chunk, len(ds)); i++ {
					for ti, typ := range eventTypes {
						for variant := 0; variant < 6; variant++ {
							if ti > 0 && variant > 1 && (i+ti)%5 != 0 {
								continue
							}
							// inside a controlled execution: a node that blocks (on the event's own lock, say)
							// is a deadlock verdict, not a hung worker
							v := ""
							if x := vrt.Run(vrt.RunOpts{}, func() { setStr(&v, runCase(ds[i], typ, variant)) }); x.Verdict != vrt.VNone && v == "" {
								v = fmt.Sprintf("Process did not return: %s: %s", x.Verdict, x.VerdictMsg)
							}
							res.Add("execs", 1)
							res.Add("steps", 1)
							res.Add("nodes", 1)
							if v != "" {
								name := fmt.Sprintf("payload=%s type=%q node-variant=%d", ds[i], typ, variant)
								res.Violations = append(res.Violations, hk.Viol{Scn: job.Scn, Name: name, Kind: "oracle", Detail: name + ": " + v})
								return res
							}
						}
					}
					_, enc := image(ds[i])
					res.Outcome(fmt.Sprintf("%s encodable=%v", ds[i], enc))
				}
				if job.Scn == 1 {
					res.Samples = append(res.Samples, ds[job.Scn*chunk].String(), ds[job.Scn*chunk+17].String())
				}
				return res
			case job.Scn == nChunks:
				res.Add("execs", 3)
				res.Add("steps", 3)
				res.Add("nodes", 3)
				if v := filterCases(); v != "" {
					res.Violations = append(res.Violations, hk.Viol{Scn: job.Scn, Name: "Filter truth table", Kind: "oracle", Detail: v})
				}
				res.Outcome("filter-truth-table")
				return res
			default:
				k := job.Scn - nChunks - 1
				ex := &vrt.Explorer{Bound: -1, Body: tblBody(tblPrograms[k/2], k%2 == 1)}
				return hk.ExploreJob(prop, job, deadline, ex, fmt.Sprintf("program %d nilTable=%v", k/2, k%2 == 1))
			}
		},
		Rule: "payloads: every value of a JSON grammar with leaves {\"\", ascii, quotes/backslash/control characters, invalid UTF-8, <>& and U+2028, 2^53+1, -1, 1.5, nil, true, NaN, +Inf, chan, func, complex} in containers {map, slice of 1-2, struct with json tags incl. omitempty, pointer} nested up to depth 3 (level 3 sampled 1-in-7 in quick, complete in thorough) x event types {plain, quote+backslash, newline, unicode+html, control bytes + DEL + ESC, invalid UTF-8, unassigned / plane-14 / U+10FFFF runes} x {JSONFormatter, JSONFormatterFilter with predicate absent/true/false/(false,error)/(true,error)}. Oracle: one newline-terminated line, valid JSON with exactly created_at/event_type/payload decoding back to the creation time, the type and the JSON image computed from the descriptor; payload/type/time untouched; unencodable => (nil, err) and nothing stored; the bytes stored for the previously formatted event stay unchanged (no buffer reuse); every case also with an event that already carries stale bytes under the json format (they must be replaced); forwarding truth tables incl. Filter. Event.FormattedAs/Format: 7 programs of 2-3 threads x 2-3 operations on 2 keys (values incl. empty and nil) (with and without a pre-made table), ALL interleavings under the race detector, results must be linearizable to a last-writer-wins map (brute force).",
		Assumptions: []string{
			"encoding/json's decoder is the independent reader of the emitted bytes; the expected image is computed from the value's descriptor, never by encoding the value",
		},
		QuickBudget:    300 * time.Second,
		ThoroughBudget: 30 * time.Minute,
	})
}
