// C18 — CloudEvents output is spec-conformant and, where required, verifiably signed.
package main

import (
	"bytes"
	"context"
	"encoding/base64"
	"encoding/json"
	"errors"
	"fmt"
	"net/url"
	"reflect"
	"strings"
	"time"

	el "github.com/hashicorp/eventlogger"
	ce "github.com/hashicorp/eventlogger/formatter_filters/cloudevents"
	"verif/hk"
)

const prop = "C18"

type plainP struct {
	Name string `json:"name"`
	N    int    `json:"n"`
}
type idP struct{ plainP }

func (p idP) ID() string { return "fixed-id-123" }

type emptyIDP struct{ plainP }

func (p emptyIDP) ID() string { return "" }

type dataP struct{ plainP }

func (p dataP) Data() interface{} { return map[string]interface{}{"inner": p.Name} }

type idDataP struct{ plainP }

func (p idDataP) ID() string        { return "fixed-id-456" }
func (p idDataP) Data() interface{} { return []interface{}{"d", 1} }

// dataNilP has a Data() and it says: no data. That is the payload's answer, not a cue to publish the payload itself.
type dataNilP struct{ plainP }

func (p dataNilP) Data() interface{} { return nil }

var payloadKinds = []string{"plain", "id", "data", "id+data", "empty-id", "data-nil"}
var formatKinds = []string{"unset", "json", "text", "invalid"}
var sourceKinds = []string{"set", "nil", "empty"}
var schemaKinds = []string{"nil", "set", "empty"}
var signerKinds = []string{"nil", "ok", "failing", "failing+cancels-ctx", "ok-odd-characters"}

// createdKinds: the event's creation time (the zero time and a time in a zone with an offset are times too);
// presetKinds: what the event carries under the configured format before the node runs (an earlier
// cloudevents node of the pipeline, or stale bytes): the node stores ITS document there
var createdKinds = []string{"utc-nanos", "zero", "zone+05:30"}
var presetKinds = []string{"none", "stale"}

// oddSig prefixes the result of the "ok-odd-characters" signer: valid UTF-8 that JSON must escape.
const oddSig = "\x01\v\a\x00\x7f\"\\<>&\u2028é-"
var predKinds = []string{"nil", "true", "false", "error"}

var errSign = errors.New("signer fails")
var errPred = errors.New("predicate fails")

type caseSpec struct {
	payload, format, source, schema, signer, pred int
	listed                                        bool
	created, preset                               int
}

func (c caseSpec) String() string {
	return fmt.Sprintf("payload=%s format=%s source=%s schema=%s signer=%s listed=%v predicate=%s created=%s preset=%s",
		payloadKinds[c.payload], formatKinds[c.format], sourceKinds[c.source], schemaKinds[c.schema], signerKinds[c.signer], c.listed, predKinds[c.pred], createdKinds[c.created], presetKinds[c.preset])
}

func allCases() []caseSpec {
	var out []caseSpec
	for p := range payloadKinds {
		for f := range formatKinds {
			for s := range sourceKinds {
				for sc := range schemaKinds {
					for sg := range signerKinds {
						for _, listed := range []bool{true, false} {
							for pr := range predKinds {
								for cr := range createdKinds {
									for ps := range presetKinds {
										out = append(out, caseSpec{p, f, s, sc, sg, pr, listed, cr, ps})
									}
								}
							}
						}
					}
				}
			}
		}
	}
	return out
}

var seenIDs = map[string]string{}

var cancelProcess = func() {}

// runCase returns the first violation and, separately, the known-class note
// about the misspelled content-type member (checked without masking the rest).
// stability: the document stored for an earlier event must not change when a
// later event is formatted by another Process call.
var prevEvent *el.Event
var prevKey string
var prevBytes []byte

func stable() string {
	if prevEvent == nil {
		return ""
	}
	b, ok := prevEvent.Format(prevKey)
	if !ok || !bytes.Equal(b, prevBytes) {
		return fmt.Sprintf("the document stored for the previously formatted event changed when another event was formatted: was %q, is %q", prevBytes, b)
	}
	return ""
}

func runCase(c caseSpec) (string, string) {
	note := ""
	v := runCaseInner(c, &note)
	if v == "" {
		v = stable()
	}
	return v, note
}

func runCaseInner(c caseSpec, note *string) string {
	base := plainP{Name: "n<&>\"x", N: 7}
	var payload interface{}
	var wantData interface{}
	wantID := ""
	switch payloadKinds[c.payload] {
	case "plain":
		payload, wantData = base, map[string]interface{}{"name": base.Name, "n": json.Number("7")}
	case "id":
		payload, wantData, wantID = idP{base}, map[string]interface{}{"name": base.Name, "n": json.Number("7")}, "fixed-id-123"
	case "empty-id":
		payload = emptyIDP{base}
	case "data":
		payload, wantData = dataP{base}, map[string]interface{}{"inner": base.Name}
	case "id+data":
		payload, wantData, wantID = idDataP{base}, []interface{}{"d", json.Number("1")}, "fixed-id-456"
	case "data-nil":
		payload, wantData = dataNilP{base}, nil
	}
	f := &ce.FormatterFilter{}
	switch sourceKinds[c.source] {
	case "set":
		f.Source, _ = url.Parse("https://example.test/src?x=1")
	case "empty":
		f.Source = &url.URL{}
	}
	switch schemaKinds[c.schema] {
	case "set":
		f.Schema, _ = url.Parse("https://example.test/schema.json")
	case "empty":
		f.Schema = &url.URL{}
	}
	wantKey := string(ce.FormatJSON)
	switch formatKinds[c.format] {
	case "json":
		f.Format = ce.FormatJSON
	case "text":
		f.Format = ce.FormatText
		wantKey = string(ce.FormatText)
	case "invalid":
		f.Format = "yaml"
	}
	var signerInputs [][]byte
	switch signerKinds[c.signer] {
	case "ok":
		f.Signer = func(_ context.Context, b []byte) (string, error) {
			signerInputs = append(signerInputs, append([]byte(nil), b...))
			return fmt.Sprintf("sig-of-%d-bytes-%x", len(b), fnv(b)), nil
		}
	case "ok-odd-characters":
		f.Signer = func(_ context.Context, b []byte) (string, error) {
			signerInputs = append(signerInputs, append([]byte(nil), b...))
			return fmt.Sprintf("%ssig-of-%d-bytes-%x", oddSig, len(b), fnv(b)), nil
		}
	case "failing":
		f.Signer = func(_ context.Context, b []byte) (string, error) {
			signerInputs = append(signerInputs, append([]byte(nil), b...))
			return "", errSign
		}
	case "failing+cancels-ctx":
		// the context becomes done while the signer runs (a signer with its own deadline)
		f.Signer = func(_ context.Context, b []byte) (string, error) {
			signerInputs = append(signerInputs, append([]byte(nil), b...))
			cancelProcess()
			return "", errSign
		}
	}
	typ := el.EventType("audit")
	if c.listed {
		f.SignEventTypes = []string{"other", "audit"}
	} else {
		f.SignEventTypes = []string{"other", "AUDIT", "Audit", "audit ", "audi"} // near misses are not listed either
	}
	predCalls := 0
	switch predKinds[c.pred] {
	case "true":
		f.Predicate = func(context.Context, interface{}) (bool, error) { predCalls++; return true, nil }
	case "false":
		f.Predicate = func(context.Context, interface{}) (bool, error) { predCalls++; return false, nil }
	case "error":
		f.Predicate = func(context.Context, interface{}) (bool, error) { predCalls++; return false, errPred }
	}
	created := time.Date(2023, 5, 6, 7, 8, 9, 987654321, time.UTC)
	switch createdKinds[c.created] {
	case "zero":
		created = time.Time{}
	case "zone+05:30":
		created = time.Date(2023, 5, 6, 7, 8, 9, 120000000, time.FixedZone("IST", 5*3600+1800))
	}
	e := &el.Event{Type: typ, CreatedAt: created, Formatted: map[string][]byte{}, Payload: payload}
	if presetKinds[c.preset] == "stale" {
		e.Formatted[wantKey] = []byte(`{"id":"stale","source":"https://elsewhere/","specversion":"1.0","type":"other","data":"left by an earlier node"}` + "\n")
	}
	pctx, cancel := context.WithCancel(context.Background())
	cancelProcess = cancel
	out, err := f.Process(pctx, e)
	cancel()

	invalid := sourceKinds[c.source] != "set" || formatKinds[c.format] == "invalid" || schemaKinds[c.schema] == "empty" || payloadKinds[c.payload] == "empty-id"
	if invalid {
		if err == nil || out != nil {
			return fmt.Sprintf("invalid configuration / empty ID must be rejected, Process returned (%v, %v)", out, err)
		}
		return ""
	}
	mustSign := c.signer != 0 && c.listed
	if mustSign && strings.HasPrefix(signerKinds[c.signer], "failing") {
		if out != nil || err == nil {
			return fmt.Sprintf("signing failed, yet Process returned (forwarded=%v, err=%v): an event whose signing failed must not be forwarded unsigned", out != nil, err)
		}
		return ""
	}
	switch predKinds[c.pred] {
	case "error":
		if err == nil || out != nil {
			return "the predicate failed but the event was forwarded / no error returned"
		}
		return ""
	case "false":
		if err != nil || out != nil {
			return fmt.Sprintf("predicate false: want (nil, nil), got (%v, %v)", out, err)
		}
	default:
		if err != nil || out != e {
			return fmt.Sprintf("valid configuration: want the event forwarded, got (%v, %v)", out, err)
		}
	}
	b, ok := e.Format(wantKey)
	if !ok {
		return "nothing stored under " + wantKey
	}
	other := string(ce.FormatText)
	if wantKey == other {
		other = string(ce.FormatJSON)
	}
	if _, ok := e.Format(other); ok {
		return "bytes stored under the other cloudevents format as well"
	}
	dec := json.NewDecoder(bytes.NewReader(b))
	dec.UseNumber()
	var doc map[string]interface{}
	if err := dec.Decode(&doc); err != nil {
		return fmt.Sprintf("stored bytes are not JSON: %v", err)
	}
	if wantKey == string(ce.FormatText) {
		if !bytes.Contains(b, []byte("\n  \"id\"")) {
			return "text format must be indented JSON"
		}
	} else if bytes.Count(b, []byte("\n")) != 1 {
		return "json format must be a single line"
	}
	str := func(k string) string { s, _ := doc[k].(string); return s }
	if str("id") == "" || str("source") != f.Source.String() || str("specversion") != "1.0" || str("type") != string(typ) {
		return fmt.Sprintf("required members wrong: id=%q source=%q specversion=%q type=%q", str("id"), str("source"), str("specversion"), str("type"))
	}
	if wantID != "" && str("id") != wantID {
		return fmt.Sprintf("id=%q, the payload's ID() is %q", str("id"), wantID)
	}
	if wantID == "" {
		if prev, dup := seenIDs[str("id")]; dup {
			return fmt.Sprintf("generated id %q is not unique (also used for %s)", str("id"), prev)
		}
		seenIDs[str("id")] = c.String()
	}
	if t, perr := time.Parse(time.RFC3339Nano, str("time")); perr != nil || !t.Equal(created) {
		return fmt.Sprintf("time=%q does not decode to the creation time", str("time"))
	}
	if !reflect.DeepEqual(doc["data"], wantData) {
		return fmt.Sprintf("data=%#v, want %#v", doc["data"], wantData)
	}
	wantCT := ce.DataContentTypeCloudEvents
	if wantKey == string(ce.FormatText) {
		wantCT = ce.DataContentTypeText
	}
	if str("datacontenttype") != wantCT {
		if _, has := doc["datacontenttype"]; !has && str("datacontentype") == wantCT {
			// the value is right but the member name is misspelled: reported separately so
			// that the remaining requirements are still checked for this case
			*note = fmt.Sprintf("the content type %q is emitted under the member name \"datacontentype\"; the CloudEvents attribute is \"datacontenttype\" (spec 1.0)", wantCT)
		} else {
			return fmt.Sprintf("datacontenttype=%q (datacontentype=%q) want %q", str("datacontenttype"), str("datacontentype"), wantCT)
		}
	}
	if f.Schema != nil {
		if str("dataschema") != f.Schema.String() {
			return fmt.Sprintf("dataschema=%q want %q", str("dataschema"), f.Schema.String())
		}
	} else if _, has := doc["dataschema"]; has {
		return "dataschema present although no schema is configured"
	}
	if v := stable(); v != "" {
		return v
	}
	prevEvent, prevKey, prevBytes = e, wantKey, append([]byte(nil), b...)
	// the same filter formats another event: the document stored for this one must stay as it is
	{
		n0 := len(signerInputs)
		e2 := &el.Event{Type: typ, CreatedAt: created.Add(time.Hour), Formatted: map[string][]byte{}, Payload: plainP{Name: "the second event through the same filter, with a longer name than the first", N: 99}}
		ctx2, cancel2 := context.WithCancel(context.Background())
		cancelProcess = cancel2
		f.Process(ctx2, e2)
		cancel2()
		signerInputs = signerInputs[:n0]
		if now, _ := e.Format(wantKey); !bytes.Equal(now, prevBytes) {
			return fmt.Sprintf("the document stored for an event changed from %q to %q when the same filter formatted the next event", prevBytes, now)
		}
	}
	_, hasSer := doc["serialized"]
	_, hasMac := doc["serialized_hmac"]
	if !mustSign {
		if hasSer || hasMac {
			return "the event is signed although no signer is configured or its type is not listed for signing"
		}
		if len(signerInputs) != 0 {
			return "the signer was invoked for an event type that is not listed"
		}
		return ""
	}
	if !hasSer || !hasMac {
		return "a signer is configured and the type is listed, but the forwarded event carries no serialized / serialized_hmac"
	}
	raw, derr := base64.RawURLEncoding.DecodeString(str("serialized"))
	if derr != nil {
		return "serialized is not base64url: " + derr.Error()
	}
	if len(signerInputs) != 1 || !bytes.Equal(signerInputs[0], raw) {
		return "serialized does not decode to exactly the bytes the signer was given"
	}
	wantSig := fmt.Sprintf("sig-of-%d-bytes-%x", len(raw), fnv(raw))
	if signerKinds[c.signer] == "ok-odd-characters" {
		wantSig = oddSig + wantSig
	}
	if str("serialized_hmac") != wantSig {
		return "serialized_hmac is not the signer's result for the serialized bytes"
	}
	var unsigned map[string]interface{}
	d2 := json.NewDecoder(bytes.NewReader(raw))
	d2.UseNumber()
	if err := d2.Decode(&unsigned); err != nil {
		return "serialized does not decode to a JSON document"
	}
	want := map[string]interface{}{}
	for k, v := range doc {
		if k != "serialized" && k != "serialized_hmac" {
			want[k] = v
		}
	}
	if !reflect.DeepEqual(unsigned, want) {
		return fmt.Sprintf("serialized decodes to %v, the unsigned document is %v", unsigned, want)
	}
	// byte-exact against an unsigned twin when the id is fixed
	if wantID != "" {
		twin := &ce.FormatterFilter{Source: f.Source, Schema: f.Schema, Format: f.Format, SignEventTypes: f.SignEventTypes}
		e2 := &el.Event{Type: typ, CreatedAt: created, Formatted: map[string][]byte{}, Payload: payload}
		if _, err := twin.Process(context.Background(), e2); err == nil {
			if tb, _ := e2.Format(wantKey); !bytes.Equal(tb, raw) {
				return "serialized is not byte-identical to the document an unsigned run produces"
			}
		}
	}
	return ""
}

// ---- histories: Process interleaved (sequentially) with Rotate ---------------------------
//
// Every sequence of up to 4 steps over {Process a listed type, Process an unlisted type, Rotate(A),
// Rotate(B)} from a filter that starts without a signer or with signer A: a listed event is signed by
// exactly the signer configured at that moment (none: unsigned), an unlisted one never.
func runHistories(res *hk.Result, scn int) {
	mkSigner := func(name string, calls *[]string) ce.Signer {
		return func(_ context.Context, b []byte) (string, error) {
			*calls = append(*calls, name)
			return fmt.Sprintf("%s-sig-%x", name, fnv(b)), nil
		}
	}
	ops := []string{"P-listed", "P-unlisted", "R-A", "R-B", "R-nil"}
	var seq []int
	var rec func()
	run := func(init string) string {
		var calls []string
		f := &ce.FormatterFilter{SignEventTypes: []string{"audit"}}
		f.Source, _ = url.Parse("https://example.test/src")
		cur := ""
		if init == "A" {
			f.Signer, cur = mkSigner("A", &calls), "A"
		}
		for i, o := range seq {
			switch ops[o] {
			case "R-nil":
				// a nil signer is rejected, and a rejected call changes nothing
				if err := f.Rotate(nil); err == nil {
					return fmt.Sprintf("step %d: Rotate(nil) was accepted", i)
				}
			case "R-A", "R-B":
				name := ops[o][2:]
				if err := f.Rotate(mkSigner(name, &calls)); err != nil {
					return fmt.Sprintf("step %d: Rotate failed: %v", i, err)
				}
				cur = name
			default:
				typ := el.EventType("audit")
				if ops[o] == "P-unlisted" {
					typ = "other"
				}
				calls = calls[:0]
				e := &el.Event{Type: typ, CreatedAt: time.Unix(1700000000, 0), Formatted: map[string][]byte{}, Payload: plainP{Name: "h", N: i}}
				out, err := f.Process(context.Background(), e)
				if err != nil || out != e {
					return fmt.Sprintf("step %d %s: want the event forwarded, got (%v, %v)", i, ops[o], out, err)
				}
				b, _ := e.Format(string(ce.FormatJSON))
				var doc map[string]interface{}
				if err := json.Unmarshal(b, &doc); err != nil {
					return fmt.Sprintf("step %d: stored bytes are not JSON: %v", i, err)
				}
				mac, _ := doc["serialized_hmac"].(string)
				ser, _ := doc["serialized"].(string)
				mustSign := cur != "" && typ == "audit"
				if !mustSign {
					if mac != "" || ser != "" || len(calls) != 0 {
						return fmt.Sprintf("step %d %s: signed (or signer invoked: %v) although signer=%q / type %q", i, ops[o], calls, cur, typ)
					}
					continue
				}
				raw, derr := base64.RawURLEncoding.DecodeString(ser)
				if ser == "" || derr != nil {
					return fmt.Sprintf("step %d %s: signer %s is configured (set by an earlier Rotate or at construction) and the type is listed, but the event carries no valid serialized member", i, ops[o], cur)
				}
				if want := fmt.Sprintf("%s-sig-%x", cur, fnv(raw)); mac != want || len(calls) != 1 || calls[0] != cur {
					return fmt.Sprintf("step %d %s: serialized_hmac=%q (signers invoked: %v), the current signer %s yields %q", i, ops[o], mac, calls, cur, want)
				}
			}
		}
		return ""
	}
	rec = func() {
		if len(seq) > 0 {
			for _, init := range []string{"", "A"} {
				res.Add("execs", 1)
				res.Add("steps", int64(len(seq)))
				res.Add("nodes", 1)
				var names []string
				for _, o := range seq {
					names = append(names, ops[o])
				}
				name := fmt.Sprintf("history initial-signer=%q steps=%v", init, names)
				if v := run(init); v != "" {
					if !res.AddViolation(prop, hk.Viol{Scn: scn, Name: name, Kind: "oracle", Detail: name + ": " + v}) {
						return
					}
				}
				res.Outcome(fmt.Sprintf("hist-len%d-init%s", len(seq), init))
			}
		}
		if len(seq) == 4 {
			return
		}
		for o := range ops {
			seq = append(seq, o)
			rec()
			seq = seq[:len(seq)-1]
		}
	}
	rec()
	// an empty list lists nothing: with a signer configured and SignEventTypes nil or empty no event type is
	// listed for signing, so nothing is signed (and a failing signer cannot make the event fail)
	for _, failing := range []bool{false, true} {
		for li, list := range [][]string{nil, {}} {
			res.Add("execs", 1)
			res.Add("steps", 1)
			res.Add("nodes", 1)
			calls := 0
			f := &ce.FormatterFilter{SignEventTypes: list, Signer: func(_ context.Context, b []byte) (string, error) {
				calls++
				if failing {
					return "", errSign
				}
				return "sig", nil
			}}
			f.Source, _ = url.Parse("https://example.test/src")
			e := &el.Event{Type: "audit", CreatedAt: time.Unix(1700000000, 0), Formatted: map[string][]byte{}, Payload: plainP{Name: "e", N: 1}}
			out, err := f.Process(context.Background(), e)
			name := fmt.Sprintf("signer configured (failing=%v), SignEventTypes empty (variant %d)", failing, li)
			v := ""
			if err != nil || out != e {
				v = fmt.Sprintf("no event type is listed for signing: want the event forwarded unsigned, got (%v, %v)", out, err)
			} else {
				b, _ := e.Format(string(ce.FormatJSON))
				var doc map[string]interface{}
				json.Unmarshal(b, &doc)
				_, hasSer := doc["serialized"]
				_, hasMac := doc["serialized_hmac"]
				if hasSer || hasMac || calls != 0 {
					v = fmt.Sprintf("the event was signed (signer calls: %d) although its type is not listed for signing (the list is empty)", calls)
				}
			}
			if v != "" {
				if !res.AddViolation(prop, hk.Viol{Scn: scn, Name: name, Kind: "oracle", Detail: name + ": " + v}) {
					return
				}
			}
			res.Outcome("empty-list")
		}
	}
	res.Samples = append(res.Samples, "history initial-signer=\"\" steps=[P-listed R-A P-listed]: first event unsigned, second signed by A")
}

func fnv(b []byte) uint64 {
	var h uint64 = 14695981039346656037
	for _, c := range b {
		h ^= uint64(c)
		h *= 1099511628211
	}
	return h
}

func main() {
	cases := allCases()
	const chunk = 540
	hk.Main(&hk.Check{
		ID: prop,
		Scenarios: func(tier string) []string {
			var n []string
			for i := 0; i < len(cases); i += chunk {
				n = append(n, fmt.Sprintf("cases %d..%d", i, min(i+chunk, len(cases))-1))
			}
			return append(n, "Process / Rotate histories")
		},
		RunJob: func(tier string, job hk.Job, deadline time.Time) *hk.Result {
			res := &hk.Result{}
			if job.Scn*chunk >= len(cases) {
				runHistories(res, job.Scn)
				return res
			}
			for i := job.Scn * chunk; i < min((job.Scn+1)*chunk, len(cases)); i++ {
				v, note := runCase(cases[i])
				res.Add("execs", 1)
				res.Add("steps", 1)
				res.Add("nodes", 1)
				if note != "" {
					if !res.AddViolation(prop, hk.Viol{Scn: job.Scn, Name: cases[i].String(), Kind: "oracle", Detail: cases[i].String() + ": " + note}) {
						return res
					}
				}
				if v != "" {
					if !res.AddViolation(prop, hk.Viol{Scn: job.Scn, Name: cases[i].String(), Kind: "oracle", Detail: cases[i].String() + ": " + v}) {
						return res
					}
				}
				res.Outcome(strings.ReplaceAll(cases[i].String(), " ", ","))
			}
			res.Samples = append(res.Samples, cases[job.Scn*chunk].String())
			return res
		},
		Rule:        "the full product payload {plain, ID, Data, ID+Data, ID()==\"\", Data()==nil} x Format {unset, json, text, invalid} x Source {set, nil, empty} x Schema {nil, set, empty} x Signer {nil, succeeding, failing, failing while the context becomes done} x event type {listed, not listed for signing} x Predicate {nil, true, false, error} = 6912 cases on the real FormatterFilter; the emitted bytes are parsed back: required members, specversion 1.0, time, data (payload or Data()), content type, schema, indentation, fresh unique ids; signed iff signer and listed, serialized base64url-decodes to exactly the bytes the signer saw and to the unsigned document (byte-identical to an unsigned twin run when the id is fixed), serialized_hmac is the signer's result; failing signer => not forwarded; the document stored for the previously formatted event stays unchanged; invalid configurations and empty IDs rejected. Plus every history of up to 4 steps over {Process a listed type, Process an unlisted type, Rotate(A), Rotate(B), Rotate(nil)} from a filter without a signer or with signer A (1560 histories): a listed event is signed by exactly the signer configured at that moment, an unlisted one never; and a signer with an empty / nil SignEventTypes list signs nothing.",
		Assumptions: []string{"uniqueness of generated ids is checked across the cases of one worker process only (probabilistic property of a 10-character random id)"},
		QuickBudget: 300 * time.Second, ThoroughBudget: 10 * time.Minute,
	})
}
