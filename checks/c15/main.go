// C15 — FileSink rotation triggers, naming and retention follow the configuration.
package main

import (
	"encoding/json"
	"fmt"
	"strings"
	"time"

	"verif/hk"
	"verif/hn"
)

const prop = "C15"

func main() {
	hk.Main(&hk.Check{
		ID: prop,
		Scenarios: func(tier string) []string {
			var n []string
			cfgs := hn.FSConfigs(tier)
			for _, j := range hn.FSJobList(tier) {
				if j.Long {
					n = append(n, fmt.Sprintf("%s long histories over %v", cfgs[j.Cfg], j.LongOps(cfgs[j.Cfg])))
					continue
				}
				n = append(n, fmt.Sprintf("%s first=%s", cfgs[j.Cfg], hn.FSOps(cfgs[j.Cfg])[j.First]))
			}
			return n
		},
		RunJob: func(tier string, job hk.Job, deadline time.Time) *hk.Result {
			j := hn.FSJobList(tier)[job.Scn]
			var replay []string
			if strings.HasPrefix(job.Arg, "replay:") {
				json.Unmarshal([]byte(strings.TrimPrefix(job.Arg, "replay:")), &replay)
			}
			r := hn.FSRunJob(tier, j, true, deadline, replay)
			for i := range r.Violations {
				r.Violations[i].Scn = job.Scn
			}
			return r
		},
		Rule: "the same histories and 128 configurations as C08 (length 4 quick / 5 thorough over the full alphabet, length 6 / 7 over the reduced alphabet {1 byte, MaxBytes+1 bytes, Reopen, +31ms}) on the real FileSink with the virtual clock; after every step, against a reference model driven by the same clock: a write rotated first iff the active file held >= MaxBytes since it was opened or was older than MaxDuration; BytesWritten / LastCreated agree; created and rotated names are the plain name or base-<timestamp>.ext with strictly increasing timestamps inside the call's clock window; the active file is plain-named under TimestampOnlyOnRotate; modes (0600 default, configured mode (0666 under umask 022, i.e. bits the umask strips) on created and on pre-existing files, directory 0700); right after a rotation at most MaxFiles rotated files remain and they are the newest; nothing is removed outside a rotation, never the active file, never a bystander.",
		Assumptions: []string{
			"time conditions are certain: the clock only moves by 1ns ticks per read, +1ns or +31ms steps, MaxDuration is 30ms",
		},
		QuickBudget:    300 * time.Second,
		ThoroughBudget: 45 * time.Minute,
	})
}
