// C05 — only well-formed pipelines are ever registered; failed calls change nothing.
package main

import (
	"fmt"
	"strings"
	"time"

	el "github.com/hashicorp/eventlogger"
	"verif/hk"
	"verif/hn"
	"verif/seqmc"
)

const prop = "C05"

var kindsOf = []el.NodeType{el.NodeTypeFilter, el.NodeTypeFormatter, el.NodeTypeSink, el.NodeTypeFormatterFilter, el.NodeType(99)}
var kindLetter = []string{"F", "M", "S", "X", "U"}

// ---- (a) acceptance predicate, exhaustive over type sequences -------------------

// one job = all sequences with a given (length, first kind)
type accJob struct {
	n, first int
}

func accJobs() []accJob {
	out := []accJob{{0, 0}}
	for n := 1; n <= 5; n++ {
		for f := 0; f < len(kindsOf); f++ {
			out = append(out, accJob{n, f})
		}
	}
	return out
}

func runAcc(j accJob) *hk.Result {
	res := &hk.Result{}
	seq := make([]int, j.n)
	var rec func(i int)
	cases := 0
	rec = func(i int) {
		if len(res.Violations) > 0 {
			return
		}
		if i == j.n {
			cases += accCase(seq, res)
			return
		}
		for k := range kindsOf {
			if i == 0 && k != j.first {
				continue
			}
			seq[i] = k
			rec(i + 1)
		}
	}
	rec(0)
	res.Add("execs", int64(cases))
	res.Add("steps", int64(cases))
	res.Add("nodes", int64(cases))
	return res
}

func seqName(seq []int) string {
	s := ""
	for _, k := range seq {
		s += kindLetter[k]
	}
	if s == "" {
		s = "(empty)"
	}
	return s
}

// accCase runs all variants for one type sequence; returns the number of cases.
func accCase(seq []int, res *hk.Result) int {
	n := len(seq)
	cases := 0
	// variant: which position is unregistered (-1 none), which is an empty id (-1 none)
	for unreg := -1; unreg < n; unreg++ {
		for empty := -1; empty < n; empty++ {
			if unreg >= 0 && empty >= 0 {
				continue
			}
			for _, pid := range []string{"p", ""} {
				for _, typ := range []string{"t", ""} {
					for _, existing := range []string{"none", "allow", "deny"} {
						cases++
						kinds := map[string]el.NodeType{"xm": el.NodeTypeFormatter, "xs": el.NodeTypeSink}
						ids := make([]string, n)
						for i, k := range seq {
							ids[i] = fmt.Sprintf("k%d", i)
							kinds[ids[i]] = kindsOf[k]
						}
						r := hn.NewReg(kinds)
						hist := []string{}
						step := func(op string, f func() string) bool {
							hist = append(hist, op)
							if v := f(); v != "" {
								res.Violations = append(res.Violations, hk.Viol{Name: "acceptance " + seqName(seq), Kind: "oracle", Detail: v, History: append([]string(nil), hist...)})
								return false
							}
							return true
						}
						for i := range seq {
							if i == unreg {
								continue
							}
							id := ids[i]
							if !step("regnode "+id, func() string { return r.RegisterNode(id, "") }) {
								return cases
							}
						}
						if existing != "none" && pid != "" && typ != "" {
							if !step("regnode xm", func() string { return r.RegisterNode("xm", "") }) ||
								!step("regnode xs", func() string { return r.RegisterNode("xs", "") }) ||
								!step("regpipe "+typ+" "+pid+" xm,xs "+existing, func() string { _, v := r.RegisterPipeline(typ, pid, []string{"xm", "xs"}, existing); return v }) {
								return cases
							}
						}
						use := append([]string(nil), ids...)
						if empty >= 0 {
							use[empty] = ""
						}
						if !step(fmt.Sprintf("regpipe %q %q %v", typ, pid, use), func() string { _, v := r.RegisterPipeline(typ, pid, use, ""); return v }) {
							return cases
						}
						if len(res.Outcomes) < 400 {
							res.Outcome(fmt.Sprintf("%s unreg=%d empty=%d pid=%q type=%q existing=%s -> accepted=%v", seqName(seq), unreg, empty, pid, typ, existing, !r.LastFailed))
						}
					}
				}
			}
		}
	}
	return cases
}

// ---- (b) failure atomicity: BFS with projection comparison -------------------------

var types = []string{"t1", "t2"}
var nodeIDs = []string{"n1", "n2", "n3", "n4"}

func alphabet(tier string) []string {
	a := []string{
		"regnode n1", "regnode n2", "regnode n3", "regnode n4",
		// an id re-registered with a node of another type: later registrations are judged by the type it has now
		"regnodeas n3 F", "regnodeas n2 F",
		"regnode n2 deny", "regnode - ", "regnode n1 bogus", "regnode n1 empty",
		"regpipe t1 p1 n2,n3", "regpipe t1 p1 n1,n2,n3", "regpipe t1 p2 n2,n4 deny", "regpipe t2 p1 n2,n3",
		"regpipe t1 p1 n3", "regpipe t1 p1 n2,n1", "regpipe t1 p1 n1,n3", "regpipe t1 p1 n2,n9", "regpipe t1 p1 n2,-", "regpipe t1 p1 -",
		"regpipe t1 - n2,n3", "regpipe - p1 n2,n3", "regpipe t1 p1 n2,n3 bogus", "regpipe t1 p1 n2,n3 empty", "regpipe t1 p2 n2,n3", "regpipe t1 p1 n2,n3 deny",
		"rmnode n1", "rmnode n2", "rmnode n3", "rmnode n9", "rmnode -",
		"rmpipe t1 p1", "rmpipe t1 p2",
		"rmpipenodes t1 p1", "rmpipenodes t1 p2", "rmpipenodes t1 p9", "rmpipenodes t9 p1", "rmpipenodes - p1", "rmpipenodes t1 -",
		// the same with an already-cancelled context: whatever the call answers, "false" must mean "nothing happened"
		"rmpipenodesx t1 p1", "rmnodex n2", "rmnodex n1",
	}
	return a
}

var harness = &seqmc.Harness{
	Property: prop,
	Configs: func(tier string) []seqmc.Config {
		d := 7
		if tier == "thorough" {
			d = 8
		}
		return []seqmc.Config{{Name: "failure-atomicity", Alphabet: alphabet(tier), Depth: d}}
	},
	New: func(tier string, cfg int) seqmc.Instance {
		r := hn.NewReg(hn.StdKinds())
		r.FalseIsFailure = true
		in := &hn.RegInstance{R: r, Types: types, CheckIsAny: true}
		in.After = func(r *hn.Reg, f []string) string {
			if !r.LastFailed {
				return ""
			}
			switch f[0] {
			case "regnode", "regpipe", "rmnode", "rmpipenodes", "rmnodex", "rmpipenodesx":
			default:
				return ""
			}
			h := r.History
			before := hn.Projection(hn.StdKinds(), nil, h[:len(h)-1], types, nodeIDs)
			after := hn.Projection(hn.StdKinds(), nil, h, types, nodeIDs)
			if before != after {
				return fmt.Sprintf("the failing call %q changed what users can observe:\n before: %s\n after:  %s", strings.Join(f, " "), before, after)
			}
			return ""
		}
		return in
	},
}

func main() {
	nAcc := len(accJobs())
	hk.Main(&hk.Check{
		ID: prop,
		Scenarios: func(tier string) []string {
			var n []string
			for _, j := range accJobs() {
				n = append(n, fmt.Sprintf("acceptance len=%d first=%s", j.n, kindLetter[j.first]))
			}
			return append(n, "BFS failure-atomicity")
		},
		RunJob: func(tier string, job hk.Job, deadline time.Time) *hk.Result {
			if job.Scn < nAcc {
				if strings.HasPrefix(job.Arg, "replay") {
					// replays of acceptance cases re-run the whole chunk
					r := runAcc(accJobs()[job.Scn])
					return r
				}
				r := runAcc(accJobs()[job.Scn])
				for i := range r.Violations {
					r.Violations[i].Scn = job.Scn
				}
				if job.Scn == 12 {
					r.Samples = append(r.Samples, "acceptance case: node types F,M,S registered as k0,k1,k2; RegisterPipeline(t/p [k0 k1 k2]) with no existing pipeline -> accepted")
				}
				return r
			}
			j := job
			j.Scn = 0
			r := seqmc.RunJob(harness, tier, j, deadline)
			for i := range r.Violations {
				r.Violations[i].Scn = job.Scn
			}
			return r
		},
		Rule: "(a) every node-type sequence of length 0..5 over {filter, formatter, sink, formatter-filter, unknown type} (3906) x {all ids registered, one unregistered, one empty} x {pipeline id, event type empty or not} x existing same-id pipeline {none, AllowOverwrite, DenyOverwrite}: RegisterPipeline's verdict compared with the acceptance predicate written from the statement. (b) BFS over all histories up to the depth bound of valid and invalid RegisterNode / RegisterPipeline / RemoveNode / RemovePipeline / RemovePipelineAndNodes calls (the last two also with an already-cancelled context); after every failing call the projection {probe-Send deliveries per type, RemoveNode outcome per node id, IsAnyPipelineRegistered per type} taken on replayed copies must equal the projection before the call; IsAnyPipelineRegistered is compared with the model after every step.",
		Assumptions: []string{
			"the empty graph a failed RegisterPipeline may leave behind is not compared (the statement does not speak about it); whether Send to a type without pipelines errors is not compared either",
			"Close errors are outside this property (C06)",
		},
		QuickBudget:    300 * time.Second,
		ThoroughBudget: 45 * time.Minute,
	})
}
