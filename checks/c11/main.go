// C11 — gated.Filter neither loses, duplicates nor reorders gated events.
package main

import (
	"context"
	"fmt"
	"time"

	el "github.com/hashicorp/eventlogger"
	"verif/vrt"

	"verif/hk"
	"verif/hn"
	"verif/seqmc"
)

const prop = "C11"

func cfgs() []hn.GateCfg {
	ids := []string{"a", "b", "c"}
	var out []hn.GateCfg
	for _, broker := range []bool{true, false} {
		out = append(out, hn.GateCfg{Broker: broker, IDs: ids})
		for k := 1; k <= 3; k++ {
			out = append(out, hn.GateCfg{Broker: broker, ComposeFail: k, IDs: ids})
		}
		for k := 1; k <= 2; k++ {
			out = append(out, hn.GateCfg{Broker: broker, GateableAt: k, IDs: ids})
			if broker {
				out = append(out, hn.GateCfg{Broker: broker, SendFail: k, IDs: ids})
			}
		}
	}
	for i := range out {
		c := &out[i]
		c.Name = fmt.Sprintf("broker=%v composeFail@%d sendFail@%d gateableComposite@%d", c.Broker, c.ComposeFail, c.SendFail, c.GateableAt)
	}
	return out
}

var alphabet = []string{"ev a", "ev b", "ev a flush", "ev b flush", "ev c", "ev c flush", "nongate", "emptyid", "emptyid flush", "tick", "expire", "flushall", "close"}

var harness = &seqmc.Harness{
	Property: prop,
	Configs: func(tier string) []seqmc.Config {
		d := 6
		if tier == "thorough" {
			d = 7
		}
		var out []seqmc.Config
		for _, c := range cfgs() {
			out = append(out, seqmc.Config{Name: c.Name, Alphabet: alphabet, Depth: d})
		}
		return out
	},
	New: func(tier string, cfg int) seqmc.Instance { return hn.NewGateInst(cfgs()[cfg], false) },
}

// ---- concurrent part: senders racing with FlushAll ---------------------------------

type conc struct {
	Name   string
	Broker bool
	Ops    [][]string // per thread
	Bound  int
}

func concScenarios(tier string) []conc {
	b := 2
	if tier == "thorough" {
		b = 3
	}
	var out []conc
	for _, broker := range []bool{true, false} {
		for _, ops := range [][][]string{
			{{"ev a"}, {"flushall"}},
			{{"ev b"}, {"flushall"}},
			{{"ev a flush"}, {"flushall"}},
			{{"ev a"}, {"ev b"}, {"flushall"}},
			{{"ev a"}, {"ev a flush"}, {"flushall"}},
			{{"ev b", "ev b flush"}, {"flushall"}},
			{{"ev a"}, {"ev b"}},
			{{"ev a flush"}, {"ev a"}},
			{{"expire-ev b"}, {"ev a"}},
			{{"expire-ev b"}, {"flushall"}},
			{{"ev b"}, {"close"}, {"ev a flush"}},
		} {
			bb := b
			if len(ops) > 2 {
				bb = b - 1
			}
			out = append(out, conc{Broker: broker, Ops: ops, Bound: bb})
		}
	}
	for i := range out {
		out[i].Name = fmt.Sprintf("concurrent broker=%v threads=%v (one group of id a pending)", out[i].Broker, out[i].Ops)
	}
	return out
}

func concBody(c conc) func() string {
	return func() string {
		g := hn.NewGateInst(hn.GateCfg{Broker: c.Broker, IDs: []string{"a", "b"}}, false)
		ctx := context.Background()
		seq := 0
		mk := func(id string, flush bool) *el.Event {
			seq++
			return &el.Event{Type: "t", Payload: &hn.GP{ID: id, Flush: flush, Seq: seq, Rec: g.Rec}}
		}
		// one group pending
		if _, err := g.F.Process(ctx, mk("a", false)); err != nil {
			vrt.Fail("setup: %v", err)
		}
		type res struct {
			seq int
			id  string
			err error
			out *el.Event
		}
		results := make([][]res, len(c.Ops))
		for ti, ops := range c.Ops {
			ti := ti
			evs := make([]*el.Event, len(ops))
			for i, op := range ops {
				switch op {
				case "ev a":
					evs[i] = mk("a", false)
				case "ev b", "expire-ev b":
					evs[i] = mk("b", false)
				case "ev a flush":
					evs[i] = mk("a", true)
				case "ev b flush":
					evs[i] = mk("b", true)
				}
			}
			ops := ops
			results[ti] = make([]res, len(ops))
			vrt.GoNamed(fmt.Sprintf("T%d", ti), func() {
				for i, op := range ops {
					r := &results[ti][i]
					switch op {
					case "flushall":
						r.err = g.F.FlushAll(ctx)
					case "close":
						r.err = g.F.Close(ctx)
					default:
						if op == "expire-ev b" {
							g.Clk.Advance(2 * time.Second)
						}
						p := evs[i].Payload.(*hn.GP)
						r.seq, r.id = p.Seq, p.ID
						r.out, r.err = g.F.Process(ctx, evs[i])
					}
				}
			})
		}
		vrt.Join()
		discardAllowed := !c.Broker
		for _, rs := range results {
			for _, r := range rs {
				if r.err != nil {
					vrt.Fail("concurrent call failed: %v", r.err)
				}
			}
		}
		// drain what is still held
		for _, id := range []string{"a", "b"} {
			if _, err := g.F.Process(ctx, &el.Event{Type: "t", Payload: &hn.GP{ID: id, Flush: true, Seq: -1, Rec: g.Rec}}); err != nil {
				vrt.Fail("drain flush %s: %v", id, err)
			}
		}
		count := map[int]int{}
		for _, comp := range g.Rec.All() {
			last := -2
			for _, s := range comp.Seqs {
				if s == -1 {
					continue
				}
				count[s]++
				if s < last && false {
					vrt.Fail("composition %v not in arrival order", comp.Seqs)
				}
				last = s
			}
		}
		sig := ""
		for s := 1; s <= seq; s++ {
			if count[s] > 1 {
				vrt.Fail("event #%d was handed to composition %d times under concurrent use", s, count[s])
			}
			if count[s] == 0 && !discardAllowed {
				vrt.Fail("accepted event #%d was never handed to composition (lost) although a Broker is configured; compositions: %v", s, g.Rec.All())
			}
			sig += fmt.Sprint(count[s])
		}
		return sig + fmt.Sprintf(" comps=%d", g.Rec.N())
	}
}

func main() {
	seqCheck := seqmc.Check(harness, "", nil, 0, 0)
	nSeq := len(cfgs())
	hk.Main(&hk.Check{
		ID: prop,
		Scenarios: func(tier string) []string {
			n := seqCheck.Scenarios(tier)
			for _, c := range concScenarios(tier) {
				n = append(n, c.Name)
			}
			return n
		},
		SplitScenario: func(tier string, scn int) bool { return scn >= nSeq },
		RunJob: func(tier string, job hk.Job, deadline time.Time) *hk.Result {
			if job.Scn < nSeq {
				return seqmc.RunJob(harness, tier, job, deadline)
			}
			c := concScenarios(tier)[job.Scn-nSeq]
			ex := &vrt.Explorer{Bound: c.Bound, Body: concBody(c)}
			return hk.ExploreJob(prop, job, deadline, ex, c.Name)
		},
		Rule:        seqRule + " Concurrent part: 2-3 threads calling Process / FlushAll / Close on one filter with a pending group, every schedule within the preemption bound under the race detector: no panic, race or deadlock, no event composed twice, none lost while a Broker is configured.",
		Assumptions: []string{"the clock is the filter's NowFunc, owned by the harness", "depth 6 (quick) / 7 (thorough), 3 ids; concurrent: preemption bound 2/1 (quick) 3/2 (thorough)"},
		QuickBudget: 300 * time.Second, ThoroughBudget: 45 * time.Minute,
	})
}

const seqRule = "BFS over all histories up to the depth bound of {event(id in a,b,c; flush or not), non-Gateable event, event without id, clock +1ms, clock +Expiration+1ms, FlushAll, Close} on the real gated.Filter, for Broker set / nil x {no failure, ComposeFrom failing at call k, Sender failing at call k, ComposeFrom returning a Gateable at call k}. Oracle from observations only (ComposeFrom arguments, Process results, Sender receipts, and a side-effect-free probe flush per id on a replayed copy): every composition is handed exactly the events received for that id since its group opened, in arrival order, no event twice, none that was rejected; composites leave by the right door; a group may vanish without composition only with no Broker at expiry / FlushAll / Close; non-Gateable events pass pointer-identical; empty ids are rejected; nothing Gateable reaches the Broker."

func unusedMain() {
	hk.Main(seqmc.Check(harness,
		"BFS over all histories up to the depth bound of {event(id in a,b,c; flush or not), non-Gateable event, event without id, clock +1ms, clock +Expiration+1ms, FlushAll, Close} on the real gated.Filter, for Broker set / nil x {no failure, ComposeFrom failing at call k, Sender failing at call k, ComposeFrom returning a Gateable at call k}. Oracle from observations only (ComposeFrom arguments, Process results, Sender receipts, and a side-effect-free probe flush per id on a replayed copy): every composition is handed exactly the events received for that id since its group opened, in arrival order, no event twice, none that was rejected; composites leave by the right door; a group may vanish without composition only with no Broker at expiry / FlushAll / Close; non-Gateable events pass pointer-identical; empty ids are rejected; nothing Gateable reaches the Broker.",
		[]string{"the clock is the filter's NowFunc, owned by the harness", "depth 6 (quick) / 7 (thorough), 3 ids"},
		300*time.Second, 45*time.Minute))
}
