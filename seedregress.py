#!/usr/bin/env python3
"""Regression over the stored seeded changes: every seed recorded as caught must still be caught.
For each seeded/<name>/ the first check id named in meta.json's checks.after_strengthening is run
(quick tier) against a scratch worktree of /repo with the seed applied (./seedtest.sh).
Usage: ./seedregress.py [name-prefix ...]      e.g.  ./seedregress.py C04 C11-5
Exit 0 iff every selected seed is reported (check exits 1 with a VIOLATION line)."""
import json, os, re, subprocess, sys

os.chdir(os.path.dirname(os.path.abspath(__file__)))
sel = sys.argv[1:]
bad = 0
for name in sorted(os.listdir("seeded")):
    d = os.path.join("seeded", name)
    if not os.path.isfile(os.path.join(d, "meta.json")):  # (seeded/handmade has none: run by hand)
        continue
    if sel and not any(name.startswith(s) for s in sel):
        continue
    meta = json.load(open(os.path.join(d, "meta.json")))
    after = meta["checks"]["after_strengthening"]
    ids = re.findall(r"\bC\d\d\b", after)
    if after.startswith("not reported") or not ids:
        print(f"{name}: skipped ({after[:60]})")
        continue
    chk = ids[0].lower()
    p = subprocess.run(["./seedtest.sh", os.path.join(d, "patch.diff"), chk], stdout=subprocess.PIPE, stderr=subprocess.STDOUT)
    out = p.stdout.decode(errors="replace")
    m = re.search(r"exit=(\d+) violations=(\d+)", out)
    ok = bool(m) and m.group(1) == "1" and int(m.group(2)) > 0
    detail = " | ".join(l.strip() for l in out.splitlines()[1:3])[:400]
    print(f"{name}: {chk} {'caught' if ok else 'NOT CAUGHT: ' + out.strip()[:200]} :: {detail if ok else ''}", flush=True)
    if not ok:
        bad += 1
sys.exit(1 if bad else 0)
