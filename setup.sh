#!/bin/bash
# Builds the framework from files on disk only (offline) and warms the build cache.
set -e
export GOFLAGS=-mod=mod GOPROXY=off GOSUMDB=off GOTOOLCHAIN=local
cd "$(dirname "$0")"
mkdir -p bin evidence
go build -o bin/instr ./cmd/instr
scratch=/dev/shm/verif-setup-$$
mkdir -p "$scratch/ov"
trap 'rm -rf "$scratch"' EXIT
./bin/instr -out "$scratch/ov"
for d in checks/*/; do
  id=$(basename "$d")
  race=""
  [ -f "$d/RACE" ] && race="-race"
  go build $race -overlay "$scratch/ov/overlay.json" -o "$scratch/check-$id" "./checks/$id"
done
echo "setup ok"
