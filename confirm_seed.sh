#!/bin/bash
# ./confirm_seed.sh <worktree> <k> <dir-for-demo relative to worktree> [go test extra args...]
# Confirms a seeded change in its scratch worktree: suite passes with the change, demo fails with it, demo passes without.
set -u
export GOFLAGS=-mod=mod GOPROXY=off GOSUMDB=off GOTOOLCHAIN=local
wt=$1; k=$2; dir=$3; shift 3
m="$wt/_mut/$k"
cd "$wt" || exit 2
git checkout -q -- . ; git clean -fdq -e _mut
cp "$m/demo_test.go" "$wt/$dir/zz_demo_test.go"
echo "--- demo WITHOUT change:"; (cd "$wt/$dir" && go test -vet=off -count=1 -run 'Demo|Seed|Mut|Break|C[0-9][0-9]' "$@" . 2>&1 | tail -3)
git apply "$m/patch.diff" || { echo "PATCH DOES NOT APPLY"; exit 2; }
echo "--- demo WITH change:"; (cd "$wt/$dir" && go test -vet=off -count=1 -run 'Demo|Seed|Mut|Break|C[0-9][0-9]' "$@" . 2>&1 | grep -E "^(--- FAIL|FAIL|ok|panic|WARNING: DATA RACE)" | sort | uniq -c | head -5)
rm -f "$wt/$dir/zz_demo_test.go"
echo "--- suite WITH change:"; (cd "$wt" && go test -vet=off -count=1 ./... 2>&1 | grep -v "^ok\|no test files" | head -5; cd filters/encrypt && go test -vet=off -count=1 ./... 2>&1 | grep -v "^ok\|no test files" | head -5); echo "(suite done)"
git checkout -q -- . ; git clean -fdq -e _mut
