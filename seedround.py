#!/usr/bin/env python3
"""Processes one round of seeded changes produced in scratch worktrees /tmp/<prefix>-cNN/_mut/<k>:
confirms each (demo passes without the change, fails with it, suites pass with it) and runs the
property's own check (plus optional extra checks) on a scratch worktree via ./seedtest.sh.
Usage: ./seedround.py <prefix> [Cnn ...]        e.g.  ./seedround.py wt3 C05 C12
Prints one compact block per seed."""
import os, re, subprocess, sys

ENV = dict(os.environ, GOFLAGS="-mod=mod", GOPROXY="off", GOSUMDB="off", GOTOOLCHAIN="local")
PKGDIR = {"eventlogger": ".", "eventlogger_test": ".", "gated": "filters/gated", "gated_test": "filters/gated",
          "encrypt": "filters/encrypt", "encrypt_test": "filters/encrypt", "cloudevents": "formatter_filters/cloudevents",
          "cloudevents_test": "formatter_filters/cloudevents", "channel": "sinks/channel", "channel_test": "sinks/channel",
          "writer": "sinks/writer", "writer_test": "sinks/writer"}

def sh(cmd, cwd=None, timeout=1800):
    p = subprocess.run(cmd, shell=True, cwd=cwd, env=ENV, stdout=subprocess.PIPE, stderr=subprocess.STDOUT, timeout=timeout)
    return p.returncode, p.stdout.decode(errors="replace")

def confirm(wt, k):
    m = f"{wt}/_mut/{k}"
    demo = open(f"{m}/demo_test.go").read()
    pkg = re.search(r"^package\s+(\w+)", demo, re.M).group(1)
    d = PKGDIR.get(pkg, ".")
    race = "-race" if re.search(r"-race", open(f"{m}/README.md").read()) and "no `-race`" not in open(f"{m}/README.md").read() else ""
    sh("git checkout -q -- . ; git clean -fdq -e _mut", cwd=wt)
    sh(f"cp {m}/demo_test.go {wt}/{d}/zz_demo_test.go")
    rc0, out0 = sh(f"go test -vet=off -count=1 {race} . 2>&1 | tail -3", cwd=f"{wt}/{d}")
    without_ok = "ok " in out0 and "FAIL" not in out0
    rc, out = sh(f"git apply {m}/patch.diff", cwd=wt)
    if rc != 0:
        return d, "PATCH DOES NOT APPLY", False
    rc1, out1 = sh(f"go test -vet=off -count=1 {race} . 2>&1 | tail -40", cwd=f"{wt}/{d}")
    with_fail = "FAIL" in out1 or "panic" in out1 or "DATA RACE" in out1
    os.remove(f"{wt}/{d}/zz_demo_test.go")
    rc2, out2 = sh("go test -vet=off -count=1 ./... 2>&1 | grep -v '^ok\\|no test files' | head -3; cd filters/encrypt && go test -vet=off -count=1 ./... 2>&1 | grep -v '^ok\\|no test files' | head -3", cwd=wt)
    suite_ok = out2.strip() == ""
    sh("git checkout -q -- . ; git clean -fdq -e _mut", cwd=wt)
    ok = without_ok and with_fail and suite_ok
    return d, f"without={'ok' if without_ok else 'FAILS'} with={'FAIL' if with_fail else 'passes'} suite={'ok' if suite_ok else 'BROKEN: ' + out2.strip()[:120]}", ok

def main():
    prefix = sys.argv[1]
    props = sys.argv[2:] or [f"C{i:02d}" for i in range(1, 21)]
    for p in props:
        wt = f"/tmp/{prefix}-{p.lower()}"
        ks = sorted(int(x) for x in os.listdir(f"{wt}/_mut") if x.isdigit()) if os.path.isdir(f"{wt}/_mut") else []
        for k in ks:
            m = f"{wt}/_mut/{k}"
            if not os.path.exists(f"{m}/patch.diff"):
                print(f"## {p}/{k}: no patch")
                continue
            try:
                d, c, ok = confirm(wt, k)
            except Exception as e:
                print(f"## {p}/{k}: confirm error {e}")
                continue
            title = open(f"{m}/README.md").read().strip().splitlines()[0][:160]
            print(f"## {p}/{k} [{d}] {title}\n   confirm: {c}")
            rc, out = sh(f"./seedtest.sh {m}/patch.diff {p.lower()}", cwd="/verif", timeout=3600)
            lines = [l for l in out.splitlines() if l.startswith("seed=") or l.startswith("  ") or "BROKEN" in l]
            for l in lines[:3]:
                print("   " + l[:300])
            sys.stdout.flush()

main()
