#!/usr/bin/env python3
"""Regenerates MANIFEST.json from the table below (single source of truth for what is claimed)."""
import json, os

ROOT = os.path.dirname(os.path.abspath(__file__))

# id -> (technique, level text, level note, design ref)
CHECKS = {
 "C03": ("stateless model checking of the real Send/process/doProcess under a controlled scheduler (preemption-bounded DFS, cancel at every scheduling point)",
         "Every schedule (within the preemption bound) of every dispatch skeleton with <=3 pipelines x 3 nodes, with the context cancelled at every scheduling point, before the call, or never, is executed on the real code; each execution is checked for deadlock, panic, channel/WaitGroup misuse and goroutines that never exit. This is exhaustive within the stated bounds, which is what a liveness/leak property over schedules needs; tests sample one schedule.",
         "Scheduler models of Mutex/RWMutex/WaitGroup/channels/select/sync.Map.Range (litmus-tested); scheduling points only at synchronisation operations (sound for race-free code, race freedom decided by C04/C19); instrumenter validated by running the repository's own suite on the rewritten sources (./run selftest).",
         "DESIGN.md §3 C03"),
 "C04": ("stateless model checking of small concurrent Broker programs under a controlled scheduler with the Go race detector active on every explored schedule; interval-based delivery oracle; quiescent-state linearizability by brute force over sequential orders",
         "526 (quick) programs of 2-3 threads over a 22-call Broker alphabet (incl. a removal of an unregistered id and a node whose Close fails), each followed by one probe Send per event type after quiescence, are run on the real Broker under every schedule within the preemption bound. The race detector runs inside the controlled scheduler (hand-offs carry no happens-before edge; primitive models re-create the real edges), so a race is attributed to a concrete replayable schedule instead of depending on timing. Delivery counts of every Send are checked against the call/return intervals of the registry calls, and the quiescent private state plus all return values must equal those of a sequential order consistent with real-time order.",
         "Go race detector (no false positives; complete only for the explored synchronisation orders); bounds: <=3 threads, <=2 calls each, preemption bound 2/1 quick, 3/2 thorough; reflective dump of the Broker's private state as the state-equality oracle.",
         "DESIGN.md §3 C04"),
 "C01": ("stateless model checking of the real Send fan-out under a controlled scheduler over a bounded-exhaustive family of pipeline configurations and registration histories; brute-force traversal matching oracle on event-pointer identity",
         "979 (quick) configurations - every reachable behaviour vector of one pipeline with 2..5 nodes, two pipelines x sharing patterns, 3-4 pipelines over 1-3 event types, registration histories incl. no-op removals, removals with nodes and with failing Close, mid-pipeline sinks - are each run under every schedule within the preemption bound and every sync.Map.Range order, with and without cancellation. The recorded node invocations must decompose into exactly one in-order traversal per registered pipeline of the sent type with the exact event pointers and unchanged event contents handed from node to node; under cancellation a pipeline may be absent but a started traversal is complete.",
         "Recording nodes are harness code (norace logs); bounds per scenario are in the evidence samples; configuration space is the enumerated family, not all of 0..4 x 1..3 x 2..5.",
         "DESIGN.md §3 C01"),
 "C02": ("stateless model checking of Send under a controlled scheduler for outcome-vector x threshold scenarios, plus explicit-state BFS of the threshold API against a reference model",
         "Every multiset of up to 3 pipeline end kinds x threshold pairs (full square for <=2 pipelines, boundary pairs for 3) x cancellation mode is run under every schedule within the bound; Status ids, sink sub-multiset, warning identity, completes+warnings=pipelines, the iff-direction of the error and errors.Is(ctx.Err()) are checked on each execution. The setter/getter contract is decided by BFS over all call histories up to depth 4 (6 thorough) on two event types.",
         "The traversal ends used by the oracle are reconstructed from the nodes' own log (C01 matching).",
         "DESIGN.md §3 C02"),
 "C12": ("stateless model checking under a controlled scheduler with a faithful writer-preferring RWMutex model; deadlock verdict over re-entrancy scenarios",
         "534 (quick) scenarios - every Broker call incl. its error paths x a node that re-enters Send from Process/Close/Reopen, and the real gated.Filter wired to the same Broker with 0..3 pending groups, x {alone, concurrent writer, concurrent Send, concurrent remover} - are run under every schedule within the preemption bound. Self-deadlock on the Broker lock, reader recursion behind a waiting writer and lock-order inversions are deterministic verdicts with the blocked threads' stacks instead of test timeouts. Three genuine defects are recorded as known findings; any other deadlock still fails the check.",
         "RWMutex model mirrors sync.RWMutex (writer announces, then drains readers; announced writer blocks new readers); termination = every thread finishes in every explored schedule.",
         "DESIGN.md §3 C12"),
 "C05": ("bounded-exhaustive enumeration of RegisterPipeline inputs against the acceptance predicate, plus explicit-state BFS over call histories of the real Broker with a projection-equality oracle after every failing call",
         "All 3906 node-type sequences of length 0..5 x missing/empty ids x empty pipeline id / event type x existing pipeline policy (about 490k cases) are decided by the real RegisterPipeline and compared with the predicate written from the statement. Failure atomicity is decided by BFS over every history up to depth 7 (8 thorough) of valid and invalid registry calls: after every failing call the user-observable projection (probe deliveries, RemoveNode outcome per id, IsAnyPipelineRegistered) taken on replayed copies must be unchanged.",
         "Reference model and projection are harness code; states de-duplicated on the reflective dump of the Broker's private state.",
         "DESIGN.md §3 C05"),
 "C06": ("explicit-state BFS over call histories of the real Broker against a reference model of 'in use', states keyed on the Broker's entire private state",
         "Every history up to depth 7 (8 thorough) over RegisterNode, RegisterPipeline (incl. overwrite and duplicated ids), removals also with a cancelled context, RemovePipeline, RemovePipelineAndNodes, RemoveNode and probe Sends on 2 event types is executed on the real Broker; after every call its result, exactly which node objects were closed (once) and what a probe Send reaches are compared with the model 'a node is in use iff a currently registered pipeline lists it'. Found and fixed: three ways the reference count drifted (known-findings file).",
         "Interpretation fixed in DESIGN.md: 'node' is the id registration; reference model is 60 lines of maps.",
         "DESIGN.md §3 C06"),
 "C07": ("explicit-state BFS over policy sequences against a reference model, plus stateless model checking of overwrites racing with Sends",
         "BFS over every history up to depth 7 (8 thorough) of registrations with policies {default, Allow, Deny, invalid} for node ids and a pipeline id in two event types, interleaved with removals and probe Sends: each call's error and each probe's deliveries (object generations) are compared with the model. Concurrently, 1-2 overwrites of a pipeline race with 1-2 Sends (per-version node objects, scheduling point inside a node) and two registrations of one id race with DenyOverwrite, under every schedule within the bounds: each Send is processed by exactly one version (never a mix), never a future one, never a superseded one after the overwriting call returned; never two successful Deny registrations.",
         "Bounds of the concurrent scenarios (preemptions, non-default switches at blocking points) are stated in the scenario names in the evidence.",
         "DESIGN.md §3 C07"),
 "C20": ("explicit-state BFS over registry histories of the real Broker with Reopen probes in every reached state, map-iteration orders explored as permutations",
         "In every registry state reachable in <=7 (9 thorough) calls on 3 event types with shared nodes, Reopen must return nil and reach every node object of every registered pipeline, and with each node id failing in turn must return an error that carries that node's error exactly when a registered pipeline contains it. The order in which Reopen visits event types and pipelines is an explored choice.",
         "Harness node objects count Reopen calls; unique error values per object; errors.Is as the 'carries' relation.",
         "DESIGN.md §3 C20"),
 "C11": ("explicit-state BFS over histories of the real gated.Filter with observation-only invariants and a side-effect-free probe on replayed copies, plus stateless model checking of concurrent Process/FlushAll/Close under the race detector",
         "Every history up to depth 6 (7 thorough) over events of 3 ids (flush or not), non-Gateable and id-less events, clock steps, FlushAll and Close is executed for 14 configurations (Broker set/nil x composition / sending failing at call k / Gateable composite). Compositions must be handed exactly the events received for the id since its group opened, in order, once; composites leave by the right door; discards only where the statement permits. 22 concurrent scenarios are explored under every schedule within the bound with the race detector on.",
         "The harness payload type records ComposeFrom arguments; the Sender is harness code; the clock is the filter's own NowFunc.",
         "DESIGN.md §3 C11"),
 "C17": ("explicit-state BFS over histories of the real gated.Filter with 0..5 simultaneously open groups; probe on replayed copies after every step",
         "Every history up to depth 6 (8 thorough) over events of 3 or 5 ids, clock steps, FlushAll and Close, Broker set/nil: after each successful Process at virtual time T no group older than the expiration remains gated and expired groups reached the Sender oldest first; after a successful FlushAll/Close nothing remains and each held group was emitted once. Found and fixed: only the first of several groups was emitted (known-findings file).",
         "Virtual clock through NowFunc makes every expiry certain; the probe flushes each id on a replayed copy with the clock rewound so it has no sweep side effects.",
         "DESIGN.md §3 C17"),
 "C08": ("bounded-exhaustive enumeration of operation histories on the real FileSink over a real directory with a virtual clock, crash-point enumeration at every file-system call, plus stateless model checking of concurrent writers",
         "All 671k histories of length 4 (5 thorough) over writes at the MaxBytes boundary, Reopen, external rotation and clock steps in 128 configurations run on the real FileSink; at every file-system call the sink makes - exactly the states a SIGKILL can leave - and after every step the files read oldest to newest must concatenate to the acknowledged events, with only retention removing files and what remains being a suffix. 21 concurrent writer/Reopen scenarios are explored over all schedules within the bound.",
         "Kill model: every effect is one system call; a <=200 byte append is not torn. File identities are tracked through the sink's own rename/remove calls (instrumenter wraps os.* in the library sources).",
         "DESIGN.md §3 C08, §2.6"),
 "C15": ("bounded-exhaustive enumeration of operation histories on the real FileSink with a virtual clock against a reference model of the rotation rule, naming, modes and retention",
         "The same 671k histories x 128 configurations as C08; after every step the sink's behaviour is compared with a reference model driven by the same virtual clock: rotation iff bytes-since-open >= MaxBytes or age > MaxDuration, exported counters, strictly increasing timestamps inside the call's clock window, plain active name under TimestampOnlyOnRotate, file and directory modes, at most MaxFiles newest rotated files right after a rotation, nothing else ever removed.",
         "The virtual clock (instrumented time.Now/Since) makes every time condition certain.",
         "DESIGN.md §3 C15"),
 "C13": ("bounded-exhaustive enumeration of format tables and writer behaviours, plus stateless model checking (all interleavings and select-arm choices) of concurrent writer.Sink / FileSink / ChannelSink scenarios under the race detector",
         "All 8 format tables x 4 configured formats x writer behaviours / FileSink special paths are decided on the real sinks (success iff the configured bytes exist and the write succeeds; exactly one write of exactly those bytes). Concurrent Process calls on one writer.Sink are explored over all interleavings with a scheduling point inside the underlying Write (never two calls inside at once). ChannelSink is explored over all interleavings of Process, consumer, cancel and timer threads: success iff the very event reached the channel once, errors only once the timeout fired or the context was done, never blocked forever.",
         "Timers are modelled (virtual clock, fired by a harness thread); FileSink write errors cannot be injected and are not covered.",
         "DESIGN.md §3 C13"),
 "C14": ("bounded-exhaustive enumeration of payloads from a JSON value grammar x event types x formatter variants with a decode-and-compare oracle; all-interleavings exploration of Event.FormattedAs/Format under the race detector with brute-force linearizability",
         "About 66k (quick) cases: every value of the grammar (15 leaves incl. control characters, invalid UTF-8, big integers, NaN/Inf, chan/func/complex; maps, slices, tagged structs, pointers; depth 3) x 4 event types x 5 node variants is formatted by the real nodes; the stored bytes are decoded and compared with the JSON image computed from the value's descriptor; payload/type/time must be untouched; unencodable payloads give (nil, err) and store nothing; forwarding truth tables incl. Filter. Event.FormattedAs/Format: all interleavings of 2-3 threads x 2 operations on 2 keys, results linearizable to a last-writer-wins map, no race.",
         "encoding/json's decoder reads the output; the expected image never comes from encoding the value.",
         "DESIGN.md §3 C14"),
 "C18": ("exhaustive enumeration of the configuration x payload x signer x predicate product on the real cloudevents FormatterFilter with a parse-back oracle",
         "All 4320 combinations of payload kind, format, source, schema, signer (absent/succeeding/failing), listed/unlisted type and predicate outcome are run; the emitted bytes are parsed back and every required member, the data, content type, schema, indentation, id rules and the signature contract (serialized decodes to exactly what the signer saw and to the unsigned document; serialized_hmac is the signer's result; failing signer => nothing forwarded) are checked. Found and fixed: sign() errors were ignored. Known finding: the content-type member name is misspelled (pinned by the repository's own tests).",
         "The harness signer records its input; an unsigned twin run gives the byte-exact expected serialized document when the id is fixed.",
         "DESIGN.md §3 C18"),
 "C09": ("bounded-exhaustive enumeration of payload shapes from an explicit grammar (run-time built types, unique canaries) x override maps x wrapper faults, against a reference classifier written from the documentation",
         "73k shapes (421k thorough) with default operations and 2.3M (shape, override map, wrapper state) cases are run through the real filter; no canary of a non-public leaf may be readable in the forwarded event (structural walk and JSON rendering, raw and base64 forms), redacted leaves equal [REDACTED], errors forward nothing, rotation payloads are consumed. Found and fixed: top-level untagged map, struct by value inside a map, Taggable map without matching tags. Known finding: a struct payload passed by value is forwarded unfiltered (pinned by the repository's own Example).",
         "The expected fate of every leaf comes from the shape descriptor only; over-redaction and unexpected (fail-closed) errors are counted, not judged.",
         "DESIGN.md §3 C09, §2.5"),
 "C10": ("the same bounded-exhaustive shape enumeration with a pristine-twin equality oracle and a structural-preservation oracle",
         "For every case of the C09 enumeration the input event and payload must be deep-equal, after Process, to a twin rebuilt from the same descriptor; the output must have the same dynamic type, every leaf reachable along the same path with the same kind, every public value unchanged; all-none overrides, nil and zero payloads return the very same event. Found and fixed: pointer wrapper values in untagged maps were replaced by struct values.",
         "Twin construction shares no copy routine with the filter.",
         "DESIGN.md §3 C10"),
 "C16": ("bounded-exhaustive enumeration of values x key contexts with independent decryption / HMAC recomputation, explicit-state BFS over rotation histories, and stateless model checking of rotation racing with Process under the race detector",
         "Every encrypted value is decoded and decrypted with the wrapper the reference model says is in force, every HMAC recomputed with x/crypto hkdf + crypto/hmac; per-event wrappers (determinism, id dependence), salt/info precedence, all rotation histories up to depth 3 (4 thorough) through Rotate and rotation payloads, and Rotate || Process || Process under every schedule within the bound: each value verifies wholly under the old or the new material. Found and fixed: an unlocked wrapper read (race) and a mix of an old-derived event key with new salt/info.",
         "AES-GCM / HKDF / HMAC libraries are trusted as oracles; NewEventWrapper re-derives the event wrapper.",
         "DESIGN.md §3 C16"),
 "C19": ("stateless model checking of compositions of the library's own nodes under a controlled scheduler with the Go race detector active on every explored schedule",
         "212 compositions - every ordered pair of the nine stock node kinds placed so that both work on the same *Event concurrently (X inside pipeline 1, Y at the head of pipeline 2), with separate and shared instances, 1-2 senders and a control thread (Broker.Reopen, encrypt Rotate, cloudevents Rotate; FileSink rotates by size on a real directory) - are explored over all schedules within the stated bounds; each execution is race-checked inside the scheduler and every sink's received writes must be whole JSON lines. Found and fixed: cloudevents Rotate vs signing. Known finding: encrypt.Filter's copy of the shared event races with another pipeline's formatter.",
         "Happens-before race detection on the explored synchronisation orders (no false positives; bounded detector history means a reported race is not necessarily re-reported on replay). Bounds per scenario are in its name.",
         "DESIGN.md §3 C19"),
}

NOT_YET = "check not built yet in this session (work in progress; see DESIGN.md for the plan)"

def main():
    props = [json.loads(l)["id"] for l in open(os.path.join(ROOT, "properties.jsonl"))]
    checks = []
    for pid in props:
        if pid not in CHECKS:
            continue
        tech, text, note, ref = CHECKS[pid]
        checks.append({
            "property_id": pid,
            "quick_cmd": f"./run {pid} quick",
            "thorough_cmd": f"./run {pid} thorough",
            "evidence_file": f"/verif/evidence/{pid}.json",
            "replay_cmd_template": f"./run {pid} --replay {{path}}",
            "engine": "vrt",
            "level_claimed": {"category": "model_checking", "text": text, "design_ref": ref},
            "level_note": note,
            "technique": tech,
        })
    na = [{"property_id": p, "reason": NOT_YET} for p in props if p not in CHECKS]
    m = {
        "version": 1,
        "setup_cmd": "./setup.sh",
        "hooks": {
            "guard": "verif",
            "enable": "no source hooks: ./run instruments a copy of /repo's current working tree (cmd/instr) and builds it with `go build -overlay`; /repo itself is never modified by the machinery",
            "baseline_off_cmd": "cd /repo && export GOFLAGS=-mod=mod GOPROXY=off GOSUMDB=off GOTOOLCHAIN=local && go test -vet=off -count=1 ./... && cd filters/encrypt && go test -vet=off -count=1 ./...",
            "source_commits": [],
            "add_only": True,
        },
        "engines": [
            {"name": "vrt", "path": "/verif/vrt", "serves_properties": sorted(CHECKS.keys()),
             "kind_free_text": "hand-written stateless model checker for Go: controlled cooperative scheduler + primitive models (vsync/vtime/chan/select) + preemption-bounded DFS explorer, applied to the real library sources through a type-aware source instrumenter (cmd/instr) and go build -overlay; explicit-state BFS over real API call histories (seqmc) for sequential properties"},
        ],
        "checks": checks,
        "not_applicable": na,
        "notes": "All checks: exit 0 = property held on everything explored (an internal wall-clock budget ends the run with exit 0 and exhaustive:false in the evidence), exit 1 + VIOLATION line = violation not listed in KNOWN_FINDINGS.json, exit 2 = the check itself is broken (build failure, nondeterministic replay) and says nothing about the property.",
    }
    json.dump(m, open(os.path.join(ROOT, "MANIFEST.json"), "w"), indent=1)
    print("MANIFEST.json:", len(checks), "checks,", len(na), "not_applicable")

main()
