#!/bin/bash
# Self-test of the machinery (not a property check):
#  1. the repository's own test suites run on the INSTRUMENTED sources in pass-through mode
#     (validates that the instrumenter preserves behaviour on everything the suites exercise);
#  2. the scheduler's primitive models and the in-scheduler race detection on litmus programs.
# Usage: ./run selftest      (the run script instruments /repo first and passes the scratch dir)
set -u
export GOFLAGS=-mod=mod GOPROXY=off GOSUMDB=off GOTOOLCHAIN=local
scratch=${1:?scratch dir}
VERIF=$(cd "$(dirname "$0")" && pwd)
rc=0
for mod in . filters/encrypt; do
  md="$scratch/mod-$(echo $mod | tr '/.' '__')"
  mkdir -p "$md"
  cp "/repo/$mod/go.mod" "$md/go.mod"
  cat "/repo/$mod/go.sum" "$VERIF/go.sum" | sort -u > "$md/go.sum"
  (cd "$md" && go mod edit -modfile=go.mod -require=verif@v0.0.0 -replace=verif="$VERIF")
  if [ "$mod" = filters/encrypt ]; then
    # the encrypt module must see the instrumented root module too
    (cd "$md" && go mod edit -modfile=go.mod -replace=github.com/hashicorp/eventlogger=/repo)
  fi
  echo "== repository tests of module '$mod' on instrumented sources (pass-through)"
  (cd "/repo/$mod" && go test -modfile="$md/go.mod" -overlay="$scratch/ov/overlay.json" -vet=off -count=1 ./... 2>&1 | tail -8) || rc=2
  if (cd "/repo/$mod" && go test -modfile="$md/go.mod" -overlay="$scratch/ov/overlay.json" -vet=off -count=1 ./... 2>&1 | grep -q "^FAIL"); then rc=2; fi
done
echo "== litmus (primitive models, race detection inside the scheduler)"
go build -race -overlay "$scratch/ov/overlay.json" -o "$scratch/litmus" ./checks/litmus || exit 2
VERIF_SCRATCH="$scratch/run" VERIF_DIR="$VERIF" "$scratch/litmus" quick || rc=2
[ $rc = 0 ] && echo "selftest ok"
exit $rc
