#!/usr/bin/env python3
"""False-alarm round: behaviour-preserving changes produced in scratch worktrees /tmp/<prefix>-cNN/_mut/k.
Each patch is applied to a scratch worktree of /repo (./seedtest.sh) and every check whose property is
anchored in one of the touched files (plus the author's own property) is run, quick tier. A check that
reports a VIOLATION or is BROKEN on such a change is a false alarm / a fragility of the machinery.
Usage: ./refround.py <prefix> [Cnn ...]"""
import json, os, re, subprocess, sys

os.chdir(os.path.dirname(os.path.abspath(__file__)))
props = [json.loads(l) for l in open("properties.jsonl")]
prefix = sys.argv[1]
sel = sys.argv[2:] or [p["id"] for p in props]
bad = 0
for pid in sel:
    wt = f"/tmp/{prefix}-{pid.lower()}"
    if not os.path.isdir(f"{wt}/_mut"):
        continue
    for k in sorted(int(x) for x in os.listdir(f"{wt}/_mut") if x.isdigit()):
        patch = f"{wt}/_mut/{k}/patch.diff"
        if not os.path.exists(patch):
            continue
        touched = set(re.findall(r"^\+\+\+ b/(\S+)", open(patch).read(), re.M))
        checks = [pid]
        for p in props:
            files = set(p["anchors"]["files"])
            if p["id"] not in checks and any(t in files or os.path.basename(t) in {os.path.basename(f) for f in files} for t in touched):
                checks.append(p["id"])
        title = open(f"{wt}/_mut/{k}/README.md").read().strip().splitlines()[0][:140]
        print(f"## {pid}/{k} {title}\n   touched={sorted(touched)} checks={checks}", flush=True)
        out = subprocess.run(["./seedtest.sh", patch] + [c.lower() for c in checks], stdout=subprocess.PIPE, stderr=subprocess.STDOUT).stdout.decode(errors="replace")
        for line in out.splitlines():
            m = re.match(r"seed=\S+ check=(\S+) exit=(\d+) violations=(\d+)", line)
            if m and m.group(2) != "0":
                bad += 1
                print(f"   ALARM {line}")
                i = out.splitlines().index(line)
                for l in out.splitlines()[i + 1:i + 3]:
                    print("      " + l[:400])
        print("   done", flush=True)
print(f"alarms: {bad}")
sys.exit(1 if bad else 0)
