#!/usr/bin/env python3
"""False-alarm round: behaviour-preserving changes produced in scratch worktrees /tmp/<prefix>-cNN/_mut/k.
Each patch is applied to a scratch worktree of /repo (./seedtest.sh) and every check whose property is
anchored in one of the touched files (plus the author's own property) is run, quick tier. A check that
reports a VIOLATION or is BROKEN on such a change is a false alarm / a fragility of the machinery.
Usage: ./refround.py <prefix> [Cnn ...]      (prefix "stored": the committed corpus seeded/preserving)"""
import json, os, re, subprocess, sys

os.chdir(os.path.dirname(os.path.abspath(__file__)))
props = [json.loads(l) for l in open("properties.jsonl")]
prefix = sys.argv[1]
sel = sys.argv[2:] or [p["id"] for p in props]
bad = 0
for pid in sel:
    wt = f"/tmp/{prefix}-{pid.lower()}"
    if prefix == "stored":
        # the committed corpus: seeded/preserving/<pid>-<k>/
        os.makedirs("/dev/shm/verif-stored", exist_ok=True)
        wt = f"/dev/shm/verif-stored/{pid.lower()}"
        for d in sorted(os.listdir("seeded/preserving")):
            if d.startswith(pid + "-") and os.path.isdir(f"seeded/preserving/{d}"):
                k = d.split("-")[1]
                os.makedirs(f"{wt}/_mut/{k}", exist_ok=True)
                for f in ("patch.diff", "README.md"):
                    open(f"{wt}/_mut/{k}/{f}", "w").write(open(f"seeded/preserving/{d}/{f}").read())
    if not os.path.isdir(f"{wt}/_mut"):
        continue
    for k in sorted(int(x) for x in os.listdir(f"{wt}/_mut") if x.isdigit()):
        patch = f"{wt}/_mut/{k}/patch.diff"
        if not os.path.exists(patch):
            continue
        touched = set(re.findall(r"^\+\+\+ b/(\S+)", open(patch).read(), re.M))
        checks = [pid]
        if os.environ.get("REF_OWN"):
            pass  # only the author's own property's check
        elif os.environ.get("REF_ALL"):
            for p in props:
                files = set(p["anchors"]["files"])
                if p["id"] not in checks and any(t in files or os.path.basename(t) in {os.path.basename(f) for f in files} for t in touched):
                    checks.append(p["id"])
        else:
            # the checks whose oracles look at private state, match stacks of known findings, or run the
            # race detector: the ones a harmless restructuring is most likely to upset
            base = {os.path.basename(t) for t in touched}
            extra = []
            if base & {"broker.go", "graph.go", "graphmap.go", "node.go"}:
                extra += ["C04", "C12", "C06"]
            if base & {"gated.go"}:
                extra += ["C12", "C17", "C11"]
            if base & {"filter.go", "map.go", "tag.go"}:
                extra += ["C09", "C16"]
            if base & {"file_sink.go"}:
                extra += ["C08", "C15"]
            extra += ["C19"]
            for c in extra:
                if c not in checks:
                    checks.append(c)
        title = open(f"{wt}/_mut/{k}/README.md").read().strip().splitlines()[0][:140]
        print(f"## {pid}/{k} {title}\n   touched={sorted(touched)} checks={checks}", flush=True)
        out = subprocess.run(["./seedtest.sh", patch] + [c.lower() for c in checks], stdout=subprocess.PIPE, stderr=subprocess.STDOUT).stdout.decode(errors="replace")
        for line in out.splitlines():
            m = re.match(r"seed=\S+ check=(\S+) exit=(\d+) violations=(\d+)", line)
            if m and m.group(2) != "0":
                bad += 1
                print(f"   ALARM {line}")
                i = out.splitlines().index(line)
                for l in out.splitlines()[i + 1:i + 3]:
                    print("      " + l[:400])
        print("   done", flush=True)
print(f"alarms: {bad}")
sys.exit(1 if bad else 0)
