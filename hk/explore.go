package hk

import (
	"strings"
	"time"

	"verif/vrt"
)

// ExploreJob runs one exploration job (a scenario, or a subtree of it selected
// by job.Prefix) and packages the result. A job with Arg "replay" runs exactly
// the one execution selected by the prefix.
func ExploreJob(property string, job Job, deadline time.Time, ex *vrt.Explorer, sample any) *Result {
	res := &Result{}
	findings := LoadFindings(property)
	ex.Deadline = deadline
	ex.RaceDetail = RaceDetail
	replay := strings.HasPrefix(job.Arg, "replay")
	if replay {
		ex.MaxExecs = 1
	}
	ex.OnViolation = func(v *vrt.Violation) bool {
		hv := Viol{Scn: job.Scn, Name: job.Name, Kind: v.Kind, Detail: v.Detail, Choices: v.Choices}
		if id := MatchFinding(findings, &hv); id != "" && !replay {
			hv.Known = id
			// keep one representative per known finding and job
			for _, o := range res.Violations {
				if o.Known == id {
					res.Add("known_hits", 1)
					return true
				}
			}
			res.Violations = append(res.Violations, hv)
			res.Add("known_hits", 1)
			return true
		}
		res.Violations = append(res.Violations, hv)
		return false
	}
	if ex.JobBudget == 0 && !replay {
		ex.JobBudget = 25000
	}
	children := ex.Explore(job.Prefix, job.Split)
	res.Children = append(children, ex.Deferred...)
	res.Add("execs", int64(ex.Execs))
	res.Add("steps", int64(ex.Steps))
	res.Add("nodes", int64(ex.Nodes))
	res.Add("choice_points", int64(ex.ChoicePts))
	res.Add("max_preemptions", int64(ex.MaxPreempt))
	res.Add("max_depth", int64(ex.MaxDepth))
	for k, n := range ex.Outcomes {
		for i := 0; i < 1; i++ {
			res.Outcome(job.Name + " => " + k)
		}
		res.Outcomes[lastKey(res, job.Name+" => "+k)] += int64(n) - 1
	}
	if sample != nil && len(job.Prefix) == 0 {
		res.Samples = append(res.Samples, map[string]any{"scenario": sample, "schedules": ex.Samples})
	}
	res.Capped = ex.Capped && !replay
	return res
}

func lastKey(r *Result, sig string) string {
	if len(sig) > 120 {
		sig = sig[:100] + "…#" + hex(fnv(sig))
	}
	return sig
}

func hex(v uint64) string {
	const d = "0123456789abcdef"
	b := make([]byte, 16)
	for i := 15; i >= 0; i-- {
		b[i] = d[v&15]
		v >>= 4
	}
	return string(b)
}

var _ = time.Now
