package hk

import (
	"strings"
	"time"

	"verif/vrt"
)

// ExploreJob runs one exploration job (a scenario, or a subtree of it selected
// by job.Prefix) and packages the result. A job with Arg "replay" runs exactly
// the one execution selected by the prefix.
func ExploreJob(property string, job Job, deadline time.Time, ex *vrt.Explorer, sample any) *Result {
	// A replay divergence means the choice structure of the scenario changed between two executions of
	// this process. The harness owns every source of nondeterminism inside an execution, but not state
	// the code under test keeps for the life of the process (a lazily built package-level cache, a
	// sync.Pool): the execution that builds it has other scheduling points than those that find it built.
	// Such state reaches a fixed point after a few executions, so the job is started over (nothing of
	// the abandoned attempt is kept) in the now warmer process; only a job that still diverges after
	// several restarts is nondeterminism the harness does not own, and that is fatal.
	const restarts = 4
	cfg := *ex
	for attempt := 0; ; attempt++ {
		fresh := cfg
		res, diverged := exploreJobOnce(property, job, deadline, &fresh, sample)
		if diverged == "" {
			*ex = fresh
			if attempt > 0 {
				res.Add("restarts_after_process_global_warmup", int64(attempt))
			}
			return res
		}
		if attempt >= restarts || strings.HasPrefix(job.Arg, "replay") {
			panic(diverged)
		}
	}
}

func exploreJobOnce(property string, job Job, deadline time.Time, ex *vrt.Explorer, sample any) (res *Result, diverged string) {
	defer func() {
		if r := recover(); r != nil {
			if s, ok := r.(string); ok && strings.HasPrefix(s, "vrt: replay divergence") {
				diverged = s
				return
			}
			panic(r)
		}
	}()
	res = &Result{}
	findings := LoadFindings(property)
	ex.Deadline = deadline
	ex.RaceDetail = RaceDetail
	replay := strings.HasPrefix(job.Arg, "replay")
	if replay {
		ex.MaxExecs = 1
	}
	ex.OnViolation = func(v *vrt.Violation) bool {
		hv := Viol{Scn: job.Scn, Name: job.Name, Kind: v.Kind, Detail: v.Detail, Choices: v.Choices}
		if id := MatchFinding(findings, &hv); id != "" && !replay {
			hv.Known = id
			// keep one representative per known finding and job
			for _, o := range res.Violations {
				if o.Known == id {
					res.Add("known_hits", 1)
					return true
				}
			}
			res.Violations = append(res.Violations, hv)
			res.Add("known_hits", 1)
			return true
		}
		res.Violations = append(res.Violations, hv)
		return false
	}
	if ex.JobBudget == 0 && !replay {
		ex.JobBudget = 25000
	}
	if !replay {
		ex.RootSig = job.PrefixSig
	}
	children := ex.Explore(job.Prefix, job.Split)
	res.Children = append(children, ex.Deferred...)
	res.ChildSigs = append(append([]uint64{}, ex.ChildSigs...), ex.DeferredSigs...)
	if ex.Restabilised > 0 {
		res.Add("split_runs_repeated_after_process_global_warmup", int64(ex.Restabilised))
	}
	res.Add("execs", int64(ex.Execs))
	res.Add("steps", int64(ex.Steps))
	res.Add("nodes", int64(ex.Nodes))
	res.Add("choice_points", int64(ex.ChoicePts))
	res.Add("max_preemptions", int64(ex.MaxPreempt))
	res.Add("max_depth", int64(ex.MaxDepth))
	for k, n := range ex.Outcomes {
		for i := 0; i < 1; i++ {
			res.Outcome(job.Name + " => " + k)
		}
		res.Outcomes[lastKey(res, job.Name+" => "+k)] += int64(n) - 1
	}
	if sample != nil && len(job.Prefix) == 0 {
		res.Samples = append(res.Samples, map[string]any{"scenario": sample, "schedules": ex.Samples})
	}
	res.Capped = ex.Capped && !replay
	return res, ""
}

func lastKey(r *Result, sig string) string {
	if len(sig) > 120 {
		sig = sig[:100] + "…#" + hex(fnv(sig))
	}
	return sig
}

func hex(v uint64) string {
	const d = "0123456789abcdef"
	b := make([]byte, 16)
	for i := 15; i >= 0; i-- {
		b[i] = d[v&15]
		v >>= 4
	}
	return string(b)
}

var _ = time.Now
