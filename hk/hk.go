// Package hk is the harness kit shared by all checks: the coordinator that
// shards jobs over worker subprocesses, known-finding matching, replay files,
// race-report normalisation and the evidence writer.
package hk

import (
	"bufio"
	"bytes"
	"encoding/json"
	"fmt"
	"os"
	"os/exec"
	"path/filepath"
	"regexp"
	"runtime"
	"sort"
	"strconv"
	"strings"
	"sync"
	"time"
)

// Job is one unit of work for a worker process.
type Job struct {
	Scn    int    `json:"scn"`
	Name   string `json:"name,omitempty"`
	Prefix []int  `json:"prefix,omitempty"`
	// PrefixSig: hash of the enabled-set signatures met at the prefix's choice points by the execution
	// the prefix was taken from (0: unknown); the worker replaying the prefix must meet the same.
	PrefixSig uint64 `json:"psig,omitempty"`
	Split     bool   `json:"split,omitempty"`
	Arg    string `json:"arg,omitempty"`
}

// Viol is a violation as reported by a worker.
type Viol struct {
	Scn     int      `json:"scn"`
	Name    string   `json:"name"`
	Kind    string   `json:"kind"`
	Detail  string   `json:"detail"`
	Choices []int    `json:"choices,omitempty"`
	History []string `json:"history,omitempty"`
	Arg     string   `json:"arg,omitempty"`
	Known   string   `json:"known,omitempty"` // id of the matching open known finding
	// Expect (regression replays): the replay counts as reproduced only if the violation it produces
	// mentions all of these - the recorded schedule may, on a restructured tree, run into something else
	// (an open known finding, say), which is not the defect this replay guards against.
	Expect []string `json:"expect,omitempty"`
}

// Result is what a worker returns for one job.
type Result struct {
	Job        Job              `json:"job"`
	Counts     map[string]int64 `json:"counts,omitempty"`
	Outcomes   map[string]int64 `json:"outcomes,omitempty"`
	Violations []Viol           `json:"violations,omitempty"`
	Children   [][]int          `json:"children,omitempty"`
	ChildSigs  []uint64         `json:"child_sigs,omitempty"`
	ChildKeys  []string         `json:"child_keys,omitempty"` // BFS: canonical state key per child, de-duplicated by the coordinator
	Samples    []any            `json:"samples,omitempty"`
	Capped     bool             `json:"capped,omitempty"`
	Err        string           `json:"err,omitempty"`
}

func (r *Result) Add(k string, n int64) {
	if r.Counts == nil {
		r.Counts = map[string]int64{}
	}
	r.Counts[k] += n
}

// AddViolation records v, classifying it against the open known findings of
// the property; it reports whether v is a known finding (exploration may then
// continue). One representative per known finding is kept per job.
func (r *Result) AddViolation(property string, v Viol) bool {
	if id := MatchFinding(LoadFindings(property), &v); id != "" {
		v.Known = id
		r.Add("known_hits", 1)
		for _, o := range r.Violations {
			if o.Known == id {
				return true
			}
		}
		r.Violations = append(r.Violations, v)
		return true
	}
	r.Violations = append(r.Violations, v)
	return false
}

func (r *Result) Outcome(sig string) {
	if r.Outcomes == nil {
		r.Outcomes = map[string]int64{}
	}
	if len(sig) > 120 {
		sig = sig[:100] + "…#" + hex(fnv(sig))
	}
	r.Outcomes[sig]++
}

// Hash128 returns a 128-bit hex digest of s (state keys).
func Hash128(s string) string {
	var h1, h2 uint64 = 14695981039346656037, 0x9E3779B97F4A7C15
	for i := 0; i < len(s); i++ {
		h1 ^= uint64(s[i])
		h1 *= 1099511628211
		h2 = (h2 ^ uint64(s[i])) * 0xff51afd7ed558ccd
		h2 ^= h2 >> 29
	}
	return hex(h1) + hex(h2)
}

func fnv(s string) uint64 {
	var h uint64 = 14695981039346656037
	for i := 0; i < len(s); i++ {
		h ^= uint64(s[i])
		h *= 1099511628211
	}
	return h
}

// Check is implemented by every property harness.
type Check struct {
	ID    string
	Level string // evidence level, normally "model_checking"
	// Scenarios lists the scenario names for a tier; a job refers to one by index.
	Scenarios func(tier string) []string
	// SplitScenario says whether the scenario's root job should be split into
	// level-1 subtrees that are distributed over workers.
	SplitScenario func(tier string, scn int) bool
	// RunJob executes one job inside a worker process.
	RunJob func(tier string, job Job, deadline time.Time) *Result
	// Rule / Assumptions / Technique describe the enumeration for the evidence file.
	Rule        string
	Assumptions []string
	// QuickBudget / ThoroughBudget bound the wall time of the exploration phase.
	QuickBudget    time.Duration
	ThoroughBudget time.Duration
	// BFS marks an explicit-state search: children carry state keys and the
	// coordinator keeps the global visited set.
	BFS bool
	// Finish may add property-specific coverage keys once all results are in.
	Finish func(tier string, cov map[string]any, totals map[string]int64)
	// RegressionReplays are recorded counterexamples of repaired defects (paths relative to the verif
	// directory). Each is replayed in a fresh process on every run - some defects depend on process-global
	// state that only a fresh process has - and reported again if it reproduces. A replay that no longer
	// fits the code under test (different choice points) says nothing and is ignored.
	RegressionReplays []string
}

// ---- known findings ---------------------------------------------------------

type Finding struct {
	ID       string   `json:"id"`
	Property string   `json:"property"`
	Status   string   `json:"status"` // open | fixed
	Match    []string `json:"match,omitempty"`
	Commit   string   `json:"commit,omitempty"`
	What     string   `json:"what"`
}

type findingsFile struct {
	Findings []Finding `json:"findings"`
}

func VerifDir() string {
	if d := os.Getenv("VERIF_DIR"); d != "" {
		return d
	}
	return "/verif"
}

var findingsCache = map[string][]Finding{}

func LoadFindings(property string) []Finding {
	if f, ok := findingsCache[property]; ok {
		return f
	}
	f := loadFindings(property)
	findingsCache[property] = f
	return f
}

func loadFindings(property string) []Finding {
	b, err := os.ReadFile(filepath.Join(VerifDir(), "KNOWN_FINDINGS.json"))
	if err != nil {
		return nil
	}
	var ff findingsFile
	if err := json.Unmarshal(b, &ff); err != nil {
		fmt.Fprintln(os.Stderr, "KNOWN_FINDINGS.json:", err)
		os.Exit(2)
	}
	var out []Finding
	for _, f := range ff.Findings {
		if f.Property == property && f.Status == "open" {
			out = append(out, f)
		}
	}
	return out
}

// MatchFinding returns the id of the open finding whose every match string
// occurs in the violation's text, or "".
func MatchFinding(fs []Finding, v *Viol) string {
	text := v.Kind + " " + v.Detail + " " + v.Name + " " + strings.Join(v.History, " ")
	for _, f := range fs {
		if len(f.Match) == 0 {
			continue
		}
		all := true
		for _, m := range f.Match {
			// every element must occur; an element "a||b||c" is satisfied by any of its alternatives
			any := false
			for _, alt := range strings.Split(m, "||") {
				if strings.Contains(text, alt) {
					any = true
					break
				}
			}
			if !any {
				all = false
				break
			}
		}
		if all {
			return f.ID
		}
	}
	return ""
}

// ---- race report normalisation ---------------------------------------------

var raceLogPath string
var raceLogOff int64

func initRaceLog() {
	g := os.Getenv("GORACE")
	for _, f := range strings.Fields(g) {
		if strings.HasPrefix(f, "log_path=") {
			raceLogPath = strings.TrimPrefix(f, "log_path=") + "." + strconv.Itoa(os.Getpid())
		}
	}
}

var frameRe = regexp.MustCompile(`^  ([^\s].*)\(\)$`)

// RaceDetail returns the normalised text of the race reports written since the
// last call: per report, the access kinds and the first library frames of the
// two conflicting accesses (function names only, so it survives line edits).
func RaceDetail() string {
	if raceLogPath == "" {
		return "data race (no GORACE log_path configured)"
	}
	// tsan writes the report before RaceErrors() is incremented, but give the
	// file system a moment in case of buffering.
	var data []byte
	for try := 0; try < 20; try++ {
		b, err := os.ReadFile(raceLogPath)
		if err == nil && int64(len(b)) > raceLogOff {
			data = b[raceLogOff:]
			raceLogOff = int64(len(b))
			break
		}
		time.Sleep(5 * time.Millisecond)
	}
	if len(data) == 0 {
		return "data race (report text unavailable)"
	}
	var sigs []string
	var cur []string
	var block string
	var frames []string
	flush := func() {
		if block != "" {
			cur = append(cur, block+" "+strings.Join(frames, "<"))
		}
		block, frames = "", nil
	}
	for _, line := range strings.Split(string(data), "\n") {
		switch {
		case strings.HasPrefix(line, "WARNING: DATA RACE"):
			flush()
			if len(cur) > 0 {
				sigs = append(sigs, strings.Join(cur, " VS "))
			}
			cur = nil
		case strings.HasPrefix(line, "Write at"), strings.HasPrefix(line, "Read at"),
			strings.HasPrefix(line, "Previous write at"), strings.HasPrefix(line, "Previous read at"):
			flush()
			w := strings.Fields(line)
			if w[0] == "Previous" {
				block = "prev-" + w[1]
			} else {
				block = strings.ToLower(w[0])
			}
		case strings.HasPrefix(line, "Goroutine "), strings.HasPrefix(line, "=========="):
			flush()
		default:
			if block == "" {
				continue
			}
			if m := frameRe.FindStringSubmatch(line); m != nil {
				fn := m[1]
				if strings.HasPrefix(fn, "runtime.") || strings.HasPrefix(fn, "verif/vrt") || strings.HasPrefix(fn, "reflect.") || strings.HasPrefix(fn, "sync.") || strings.HasPrefix(fn, "internal/") {
					continue
				}
				if i := strings.LastIndex(fn, "/"); i >= 0 {
					fn = fn[i+1:]
				}
				if len(frames) < 4 {
					frames = append(frames, fn)
				}
			}
		}
	}
	flush()
	if len(cur) > 0 {
		sigs = append(sigs, strings.Join(cur, " VS "))
	}
	if len(sigs) == 0 {
		return "data race (unparsed report)"
	}
	return "data race: " + strings.Join(sigs, " || ")
}

// ---- worker -----------------------------------------------------------------

func workerLoop(c *Check, tier string) {
	initRaceLog()
	in := bufio.NewReaderSize(os.Stdin, 1<<20)
	out := bufio.NewWriter(os.Stdout)
	for {
		line, err := in.ReadBytes('\n')
		if len(line) == 0 && err != nil {
			return
		}
		var msg struct {
			Job      Job   `json:"job"`
			Deadline int64 `json:"deadline"`
		}
		if e := json.Unmarshal(line, &msg); e != nil {
			fmt.Fprintln(os.Stderr, "worker: bad job:", e)
			os.Exit(3)
		}
		var dl time.Time
		if msg.Deadline > 0 {
			dl = time.Unix(0, msg.Deadline)
		}
		res := c.RunJob(tier, msg.Job, dl)
		res.Job = msg.Job
		b, _ := json.Marshal(res)
		out.Write(b)
		out.WriteByte('\n')
		out.Flush()
		if err != nil {
			return
		}
	}
}

// ---- coordinator ------------------------------------------------------------

type coord struct {
	mu       sync.Mutex
	cond     *sync.Cond
	queue    []Job
	inflight int
	stop     bool
	results  []*Result
	broken   []string
}

func (q *coord) push(j Job) {
	q.mu.Lock()
	q.queue = append(q.queue, j)
	q.mu.Unlock()
	q.cond.Signal()
}

func (q *coord) pop() (Job, bool) {
	q.mu.Lock()
	defer q.mu.Unlock()
	for {
		if q.stop {
			return Job{}, false
		}
		if len(q.queue) > 0 {
			j := q.queue[0]
			q.queue = q.queue[1:]
			q.inflight++
			return j, true
		}
		if q.inflight == 0 {
			q.cond.Broadcast()
			return Job{}, false
		}
		q.cond.Wait()
	}
}

func scratchDir() string {
	d := os.Getenv("VERIF_SCRATCH")
	if d == "" {
		d = filepath.Join("/dev/shm", fmt.Sprintf("verif-run-%d", os.Getpid()))
	}
	os.MkdirAll(d, 0o755)
	return d
}

func runWorker(c *Check, tier string, q *coord, id int, deadline time.Time, scratch string, onResult func(*Result)) {
	var cmd *exec.Cmd
	var stdin *bufio.Writer
	var stdout *bufio.Reader
	var stderr *bytes.Buffer
	start := func() error {
		cmd = exec.Command(os.Args[0], "-worker", tier)
		cmd.Env = append(os.Environ(),
			"GORACE=log_path="+filepath.Join(scratch, fmt.Sprintf("race-w%d", id))+" halt_on_error=0",
			"VERIF_SCRATCH="+filepath.Join(scratch, fmt.Sprintf("w%d", id)),
			"GOMAXPROCS=1",
		)
		ip, _ := cmd.StdinPipe()
		op, _ := cmd.StdoutPipe()
		stderr = &bytes.Buffer{}
		cmd.Stderr = stderr
		stdin = bufio.NewWriter(ip)
		stdout = bufio.NewReaderSize(op, 1<<20)
		return cmd.Start()
	}
	if err := start(); err != nil {
		q.mu.Lock()
		q.broken = append(q.broken, "cannot start worker: "+err.Error())
		q.stop = true
		q.mu.Unlock()
		q.cond.Broadcast()
		return
	}
	defer func() {
		if cmd != nil && cmd.Process != nil {
			cmd.Process.Kill()
			cmd.Wait()
		}
	}()
	for {
		j, ok := q.pop()
		if !ok {
			return
		}
		msg, _ := json.Marshal(map[string]any{"job": j, "deadline": deadline.UnixNano()})
		stdin.Write(msg)
		stdin.WriteByte('\n')
		stdin.Flush()
		type rd struct {
			line []byte
			err  error
		}
		ch := make(chan rd, 1)
		go func() {
			l, e := stdout.ReadBytes('\n')
			ch <- rd{l, e}
		}()
		var got rd
		limit := time.After(time.Until(deadline) + 10*time.Minute)
		tick := time.NewTicker(100 * time.Millisecond)
		stopped := false
	waitLoop:
		for {
			select {
			case got = <-ch:
				break waitLoop
			case <-limit:
				got = rd{nil, fmt.Errorf("worker watchdog: no result for job %+v", j)}
				break waitLoop
			case <-tick.C:
				q.mu.Lock()
				st := q.stop
				q.mu.Unlock()
				if st {
					stopped = true
					break waitLoop
				}
			}
		}
		tick.Stop()
		if stopped {
			// another worker found a violation (or broke): abandon this job
			q.mu.Lock()
			q.inflight--
			q.mu.Unlock()
			q.cond.Broadcast()
			return
		}
		var res Result
		if got.err == nil {
			if e := json.Unmarshal(got.line, &res); e != nil {
				got.err = e
			}
		}
		q.mu.Lock()
		q.inflight--
		if got.err != nil {
			tail := stderr.String()
			if len(tail) > 3000 {
				tail = tail[len(tail)-3000:]
			}
			q.broken = append(q.broken, fmt.Sprintf("worker died on job scn=%d name=%s prefix=%v: %v\n%s", j.Scn, j.Name, j.Prefix, got.err, tail))
			q.stop = true
			q.mu.Unlock()
			q.cond.Broadcast()
			return
		}
		q.results = append(q.results, &res)
		q.mu.Unlock()
		onResult(&res)
		q.cond.Broadcast()
		// a long-lived worker grows (race-detector shadow state, stacks of aborted executions): recycle
		// it between jobs once it is large, so that 16 of them never exhaust the machine
		if rssMB(cmd.Process.Pid) > workerRSSLimitMB() {
			cmd.Process.Kill()
			cmd.Wait()
			if err := start(); err != nil {
				q.mu.Lock()
				q.broken = append(q.broken, "cannot restart worker: "+err.Error())
				q.stop = true
				q.mu.Unlock()
				q.cond.Broadcast()
				return
			}
		}
	}
}

func workerRSSLimitMB() int {
	if n, err := strconv.Atoi(os.Getenv("VERIF_WORKER_RSS_MB")); err == nil && n > 0 {
		return n
	}
	return 1200
}

// rssMB reads the resident set size of a process from /proc (0 if unavailable).
func rssMB(pid int) int {
	b, err := os.ReadFile(fmt.Sprintf("/proc/%d/statm", pid))
	if err != nil {
		return 0
	}
	f := strings.Fields(string(b))
	if len(f) < 2 {
		return 0
	}
	pages, _ := strconv.Atoi(f[1])
	return pages * os.Getpagesize() / (1 << 20)
}

// Evidence mirrors EVIDENCE.schema.json.
type Evidence struct {
	PropertyID  string         `json:"property_id"`
	Tier        string         `json:"tier"`
	Seed        int            `json:"seed"`
	Level       string         `json:"level"`
	Coverage    map[string]any `json:"coverage"`
	Assumptions []string       `json:"assumptions"`
	WallS       float64        `json:"wall_s"`
	Violations  int            `json:"violations"`
}

func writeEvidence(ev *Evidence) {
	if os.Getenv("VERIF_NO_EVIDENCE") != "" {
		return
	}
	dir := filepath.Join(VerifDir(), "evidence")
	os.MkdirAll(dir, 0o755)
	b, _ := json.MarshalIndent(ev, "", " ")
	if err := os.WriteFile(filepath.Join(dir, ev.PropertyID+".json"), append(b, '\n'), 0o644); err != nil {
		fmt.Fprintln(os.Stderr, "cannot write evidence:", err)
		os.Exit(2)
	}
}

// ReplayFile is the artefact written for every violation.
type ReplayFile struct {
	Property string `json:"property"`
	Tier     string `json:"tier"`
	Viol     Viol   `json:"violation"`
	Howto    string `json:"howto"`
}

func writeReplay(c *Check, tier string, v *Viol, n int) string {
	dir := filepath.Join(VerifDir(), "replays", c.ID)
	if os.Getenv("VERIF_NO_EVIDENCE") != "" {
		// a run against some other tree (seed testing): its counterexamples do not belong to /verif
		dir = filepath.Join("/dev/shm", "verif-replays", c.ID)
	}
	os.MkdirAll(dir, 0o755)
	p := filepath.Join(dir, fmt.Sprintf("violation-%d.json", n))
	b, _ := json.MarshalIndent(ReplayFile{Property: c.ID, Tier: tier, Viol: *v,
		Howto: fmt.Sprintf("cd /verif && ./run %s --replay %s", c.ID, p)}, "", " ")
	os.WriteFile(p, append(b, '\n'), 0o644)
	return p
}

// replayOnce re-runs one violation in this (fresh) process and reports whether
// it reproduces with the same kind.
func replayOnce(c *Check, tier string, v *Viol) (bool, string) {
	initRaceLog()
	j := Job{Scn: v.Scn, Name: v.Name, Prefix: v.Choices, Arg: v.Arg}
	if len(v.History) > 0 {
		b, _ := json.Marshal(v.History)
		j.Arg = "replay:" + string(b)
	} else {
		j.Arg = "replay"
	}
	res := c.RunJob(tier, j, time.Time{})
	for _, g := range res.Violations {
		if g.Kind == v.Kind {
			all := true
			for _, e := range v.Expect {
				if !strings.Contains(g.Detail, e) {
					all = false
				}
			}
			if all {
				return true, g.Detail
			}
		}
	}
	if len(res.Violations) > 0 {
		return false, "different violation: " + res.Violations[0].Kind + ": " + res.Violations[0].Detail
	}
	return false, "no violation"
}

// Main is the entry point of every check binary.
//
//	check quick|thorough          run the check
//	check -worker <tier>          internal
//	check --replay <file>         re-run one recorded violation (exit 1 if it reproduces)
func Main(c *Check) {
	args := os.Args[1:]
	if len(args) >= 2 && args[0] == "-worker" {
		workerLoop(c, args[1])
		return
	}
	if len(args) >= 2 && (args[0] == "--replay" || args[0] == "-replay") {
		b, err := os.ReadFile(args[1])
		if err != nil {
			fmt.Fprintln(os.Stderr, err)
			os.Exit(2)
		}
		var rf ReplayFile
		if err := json.Unmarshal(b, &rf); err != nil {
			fmt.Fprintln(os.Stderr, err)
			os.Exit(2)
		}
		ok, detail := replayOnce(c, rf.Tier, &rf.Viol)
		fmt.Printf("replay %s: reproduced=%v\n%s\n", args[1], ok, detail)
		if ok {
			fmt.Printf("VIOLATION property=%s replay=%s\n", c.ID, args[1])
			os.Exit(1)
		}
		os.Exit(0)
	}
	tier := os.Getenv("VERIF_TIER")
	if len(args) >= 1 {
		tier = args[0]
	}
	if tier != "thorough" {
		tier = "quick"
	}
	seed, _ := strconv.Atoi(os.Getenv("VERIF_SEED"))
	os.Exit(coordinate(c, tier, seed))
}

func coordinate(c *Check, tier string, seed int) int {
	t0 := time.Now()
	budget := c.QuickBudget
	if tier == "thorough" {
		budget = c.ThoroughBudget
	}
	if budget == 0 {
		budget = 3 * time.Minute
	}
	if s := os.Getenv("VERIF_BUDGET_S"); s != "" {
		if n, err := strconv.Atoi(s); err == nil {
			budget = time.Duration(n) * time.Second
		}
	}
	deadline := t0.Add(budget)
	scratch := scratchDir()
	defer os.RemoveAll(scratch)
	findings := LoadFindings(c.ID)

	q := &coord{}
	q.cond = sync.NewCond(&q.mu)
	names := c.Scenarios(tier)
	for i, n := range names {
		j := Job{Scn: i, Name: n}
		if c.SplitScenario != nil && c.SplitScenario(tier, i) {
			j.Split = true
		}
		q.queue = append(q.queue, j)
	}
	var amu sync.Mutex
	totals := map[string]int64{}
	outcomes := map[string]int64{}
	var samples []any
	var viols []Viol
	known := map[string]int{}
	knownWhat := map[string]string{}
	capped := false
	seenKeys := map[string]struct{}{}
	debug := os.Getenv("VERIF_DEBUG") != ""
	onResult := func(r *Result) {
		amu.Lock()
		defer amu.Unlock()
		if debug {
			fmt.Fprintf(os.Stderr, "job scn=%d %q prefix=%v: %v capped=%v viol=%d children=%d\n", r.Job.Scn, r.Job.Name, r.Job.Prefix, r.Counts, r.Capped, len(r.Violations), len(r.Children))
		}
		for k, v := range r.Counts {
			if strings.HasPrefix(k, "max_") {
				if v > totals[k] {
					totals[k] = v
				}
			} else {
				totals[k] += v
			}
		}
		for k, v := range r.Outcomes {
			if len(outcomes) < 200000 || outcomes[k] > 0 {
				outcomes[k] += v
			}
		}
		if len(samples) < 6 {
			for _, s := range r.Samples {
				if len(samples) < 6 {
					samples = append(samples, s)
				}
			}
		}
		if r.Capped {
			capped = true
		}
		if r.Err != "" {
			q.mu.Lock()
			q.broken = append(q.broken, r.Err)
			q.stop = true
			q.mu.Unlock()
		}
		for _, v := range r.Violations {
			if v.Known != "" {
				known[v.Known]++
				if _, ok := knownWhat[v.Known]; !ok {
					knownWhat[v.Known] = v.Name + ": " + v.Detail
				}
				continue
			}
			viols = append(viols, v)
			q.mu.Lock()
			q.stop = true
			q.mu.Unlock()
		}
		for i, ch := range r.Children {
			if len(r.ChildKeys) == len(r.Children) {
				if _, dup := seenKeys[r.ChildKeys[i]]; dup {
					totals["bfs_duplicate_transitions"]++
					continue
				}
				seenKeys[r.ChildKeys[i]] = struct{}{}
			}
			nj := Job{Scn: r.Job.Scn, Name: r.Job.Name, Prefix: ch}
			if len(r.ChildSigs) == len(r.Children) {
				nj.PrefixSig = r.ChildSigs[i]
			}
			q.push(nj)
		}
	}
	nw := runtime.NumCPU()
	if s := os.Getenv("VERIF_WORKERS"); s != "" {
		if n, err := strconv.Atoi(s); err == nil && n > 0 {
			nw = n
		}
	}
	if nw > len(q.queue) && (c.SplitScenario == nil) {
		nw = len(q.queue)
	}
	if nw < 1 {
		nw = 1
	}
	var wg sync.WaitGroup
	for i := 0; i < nw; i++ {
		wg.Add(1)
		go func(i int) {
			defer wg.Done()
			runWorker(c, tier, q, i, deadline, scratch, onResult)
		}(i)
	}
	wg.Wait()

	if len(q.broken) > 0 {
		for _, b := range q.broken {
			fmt.Fprintln(os.Stderr, "BROKEN:", b)
		}
		fmt.Fprintf(os.Stderr, "check %s is broken (not a verdict about the property)\n", c.ID)
		return 2
	}

	// recorded counterexamples of repaired defects, each in a fresh process
	exit := 0
	for _, rel := range c.RegressionReplays {
		path := filepath.Join(VerifDir(), rel)
		if _, err := os.Stat(path); err != nil {
			continue
		}
		cmd := exec.Command(os.Args[0], "--replay", path)
		cmd.Env = append(os.Environ(), "GORACE=log_path="+filepath.Join(scratch, "race-regress")+" halt_on_error=0")
		out, _ := cmd.CombinedOutput()
		totals["regression_replays"]++
		if strings.Contains(string(out), "reproduced=true") {
			fmt.Printf("violation: recorded counterexample %s reproduces again\n  %s\n", rel, trunc(strings.TrimSpace(string(out)), 600))
			fmt.Printf("VIOLATION property=%s replay=%s\n", c.ID, path)
			exit = 1
		}
	}
	// confirm unknown violations in fresh processes
	sort.Slice(viols, func(i, j int) bool {
		return len(viols[i].Choices)+len(viols[i].History) < len(viols[j].Choices)+len(viols[j].History)
	})
	reported := 0
	var unconfirmed []string
	for i := range viols {
		if reported >= 3 {
			break
		}
		v := &viols[i]
		path := writeReplay(c, tier, v, reported+1)
		okAll := true
		attempts, need := 3, 3
		if v.Kind == "race" {
			// the race detector keeps a bounded access history per memory cell, so a
			// genuine race is not re-reported on every run; it has no false positives
			attempts, need = 6, 1
		}
		got := 0
		var lastOut []byte
		for k := 0; k < attempts && got < need; k++ {
			cmd := exec.Command(os.Args[0], "--replay", path)
			cmd.Env = append(os.Environ(), "GORACE=log_path="+filepath.Join(scratch, "race-replay")+" halt_on_error=0")
			out, err := cmd.CombinedOutput()
			lastOut = out
			if err != nil && strings.Contains(string(out), "reproduced=true") {
				got++
			} else if v.Kind != "race" {
				break
			}
		}
		if got < need {
			if v.Kind == "race" {
				fmt.Fprintf(os.Stderr, "note: the race detector did not re-report the race on %d replays of %s (bounded detector history); the original report stands\n", attempts, path)
			} else {
				okAll = false
				fmt.Fprintf(os.Stderr, "replay of %s did not reproduce:\n%s\n", path, lastOut)
			}
		}
		if !okAll {
			// not believed: reported only if nothing else confirms (then the check is broken, not the property)
			unconfirmed = append(unconfirmed, fmt.Sprintf("%s: %s", v.Kind, v.Detail))
			continue
		}
		fmt.Printf("violation: scenario=%s kind=%s\n  %s\n", v.Name, v.Kind, v.Detail)
		fmt.Printf("VIOLATION property=%s replay=%s\n", c.ID, path)
		reported++
		exit = 1
	}
	for _, u := range unconfirmed {
		fmt.Fprintf(os.Stderr, "note: a reported violation of %s did not reproduce on replay and is not counted: %s\n", c.ID, trunc(u, 300))
	}
	if reported == 0 && exit == 0 && len(unconfirmed) > 0 {
		fmt.Fprintf(os.Stderr, "BROKEN: violation of %s (%s) does not reproduce deterministically; treating the check as broken, not the property\n", c.ID, trunc(unconfirmed[0], 300))
		return 2
	}
	ids := make([]string, 0, len(known))
	for id := range known {
		ids = append(ids, id)
	}
	sort.Strings(ids)
	for _, id := range ids {
		what := id
		for _, f := range findings {
			if f.ID == id {
				what = f.ID + " — " + f.What
			}
		}
		fmt.Printf("KNOWN-FINDING: property=%s %s (hit on %d explored executions/histories; e.g. %s)\n", c.ID, what, known[id], trunc(knownWhat[id], 300))
	}

	distinct := 0
	for k := range outcomes {
		if !strings.HasPrefix(k, "VIOLATION:") {
			distinct++
		}
	}
	if len(seenKeys) > 0 {
		totals["bfs_states"] = int64(len(seenKeys))
		totals["nodes"] += int64(len(seenKeys))
	}
	cov := map[string]any{
		"states":                        totals["nodes"],
		"transitions":                   totals["steps"],
		"traces_validated_against_impl": totals["execs"],
		"evaluations":                   totals["execs"],
		"distinct_nontrivial":           distinct,
		"rule":                          c.Rule,
		"samples":                       samples,
		"exhaustive":                    !capped && exit == 0,
		"scenarios":                     len(names),
		"workers":                       nw,
		"totals":                        totals,
		"masked_by_known_finding":       known,
	}
	if capped {
		cov["caps_hit"] = "wall-clock budget reached before the enumeration finished; counts are what was fully explored"
	}
	if c.Finish != nil {
		c.Finish(tier, cov, totals)
	}
	if len(samples) == 0 {
		cov["samples"] = []any{"(no sample recorded)"}
	}
	ev := &Evidence{PropertyID: c.ID, Tier: tier, Seed: seed, Level: c.Level, Coverage: cov,
		Assumptions: c.Assumptions, WallS: time.Since(t0).Seconds(), Violations: len(viols)}
	if ev.Level == "" {
		ev.Level = "model_checking"
	}
	writeEvidence(ev)
	fmt.Printf("%s %s: scenarios=%d executions=%d steps=%d tree-nodes=%d distinct-outcomes=%d known-finding-hits=%d exhaustive=%v wall=%.1fs\n",
		c.ID, tier, len(names), totals["execs"], totals["steps"], totals["nodes"], distinct, len(known), cov["exhaustive"], time.Since(t0).Seconds())
	return exit
}

func trunc(s string, n int) string {
	s = strings.ReplaceAll(s, "\n", " ")
	if len(s) > n {
		return s[:n] + "…"
	}
	return s
}
