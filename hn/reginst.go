package hn

import (
	"fmt"
	"strings"

	el "github.com/hashicorp/eventlogger"
)

// RegInstance adapts Reg to seqmc.Instance. Operations are strings:
//
//	regnode <id> [policy]         regpipe <type> <pid> <id,id,...> [policy]
//	rmpipe <type> <pid>           rmpipenodes <type> <pid>        rmnode <id>
//	send <type>                   isany <type>
//
// "-" stands for an empty id / type / list.
type RegInstance struct {
	R          *Reg
	Types      []string
	CheckIsAny bool
	// Extra handles check-specific operations (e.g. reopen); returns handled.
	Extra func(r *Reg, f []string) (handled bool, obs string, viol string)
	// After is called after every successful step with the op fields.
	After func(r *Reg, f []string) string
}

func dash(s string) string {
	if s == "-" {
		return ""
	}
	return s
}

func splitIDs(s string) []string {
	if s == "-" || s == "" {
		return nil
	}
	parts := strings.Split(s, ",")
	for i := range parts {
		parts[i] = dash(parts[i])
	}
	return parts
}

func (in *RegInstance) Apply(op string) (string, string) {
	r := in.R
	r.History = append(r.History, op)
	f := strings.Fields(op)
	arg := func(i int) string {
		if i < len(f) {
			return f[i]
		}
		return ""
	}
	obs, viol := "", ""
	switch f[0] {
	case "regnode":
		viol = r.RegisterNode(dash(arg(1)), arg(2))
	case "regnodeas":
		k := map[string]el.NodeType{"F": el.NodeTypeFilter, "M": el.NodeTypeFormatter, "S": el.NodeTypeSink, "X": el.NodeTypeFormatterFilter}[arg(2)]
		viol = r.RegisterNodeAs(dash(arg(1)), arg(3), k)
	case "regnodesame":
		viol = r.RegisterNodeSame(dash(arg(1)), arg(2))
	case "regpipe":
		var ok bool
		ok, viol = r.RegisterPipeline(dash(arg(1)), dash(arg(2)), splitIDs(arg(3)), arg(4))
		obs = fmt.Sprint(ok)
	case "rmpipe":
		viol = r.RemovePipeline(dash(arg(1)), dash(arg(2)))
	case "rmpipenodes":
		viol = r.RemovePipelineAndNodes(dash(arg(1)), dash(arg(2)))
	case "rmnode":
		viol = r.RemoveNode(dash(arg(1)))
	case "rmnodex":
		viol = r.RemoveNodeCancelled(dash(arg(1)))
	case "rmpipenodesx":
		viol = r.RemovePipelineAndNodesCancelled(dash(arg(1)), dash(arg(2)))
	case "send":
		obs, viol = r.SendProbe(arg(1))
	case "isany":
		viol = r.IsAny(arg(1))
	default:
		handled := false
		if in.Extra != nil {
			handled, obs, viol = in.Extra(r, f)
		}
		if !handled {
			viol = "harness: unknown operation " + op
		}
	}
	if viol == "" && in.CheckIsAny {
		for _, t := range in.Types {
			if v := r.IsAny(t); v != "" {
				viol = v
				break
			}
		}
	}
	if viol == "" && in.After != nil {
		viol = in.After(r, f)
	}
	return obs + "|" + r.ModelKey(), viol
}

func (in *RegInstance) Key() string { return in.R.Key() }

// StdKinds: n1 filter, n2 formatter, n3 sink, n4 sink, n5 formatter-filter.
func StdKinds() map[string]el.NodeType {
	return map[string]el.NodeType{
		"n1": el.NodeTypeFilter, "n2": el.NodeTypeFormatter, "n3": el.NodeTypeSink,
		"n4": el.NodeTypeSink, "n5": el.NodeTypeFormatterFilter,
	}
}
