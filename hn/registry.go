package hn

import (
	"context"
	"errors"
	"fmt"
	"sort"
	"strings"

	el "github.com/hashicorp/eventlogger"
	"verif/vrt"
)

// Reg is a Broker driven in lockstep with the reference model of the registry
// that the property statements of C05/C06/C07/C20 describe (maps and slices;
// it never looks at the implementation's counters).
type Reg struct {
	B   *el.Broker
	Log *Log

	// node id -> kind; fixed per harness
	Kinds map[string]el.NodeType

	// implementation-side bookkeeping of harness objects
	objs map[string][]*Node // node id -> every object ever registered under it, in order

	// ---- reference model ----
	MNodes map[string]*MNode // currently registered node ids
	MPipes map[string]*MPipe // "type/pid" -> registered pipeline
	MTypes map[string]bool   // event types the broker knows (graph exists)

	History    []string
	LastFailed bool // the last registry call returned an error / false
	// FalseIsFailure (C05): a RemovePipelineAndNodes that reports false for a registered pipeline is not
	// judged here (C06 does that) but treated as a failed call: the model stays as it was and the
	// caller's before/after projection comparison decides whether anything observable changed.
	FalseIsFailure bool
	CloseErrIDs    map[string]bool // node ids whose objects fail on Close
	// WrapIDs: node ids registered as decorators. "w": a NodeUnwrapper without Close of its own around
	// the Closer (closing the node = closing what Unwrap returns); "cw": a decorator with a Close of its
	// own around another Closer "~id" (closing the node = the decorator's Close; the wrapped object is
	// the decorator's business and must not be closed by the Broker).
	WrapIDs map[string]string
	sends          int
	kindOverride   *el.NodeType
}

type MNode struct {
	Obj    *Node
	Policy string
}

type MPipe struct {
	Type, ID string
	IDs      []string
	Objs     []*Node
	Policy   string
	Ver      int
}

func NewReg(kinds map[string]el.NodeType) *Reg {
	b, _ := el.NewBroker()
	return &Reg{B: b, Log: &Log{}, Kinds: kinds, objs: map[string][]*Node{},
		MNodes: map[string]*MNode{}, MPipes: map[string]*MPipe{}, MTypes: map[string]bool{}, CloseErrIDs: map[string]bool{}}
}

// objName names an object relative to the newest registration of its id, so
// that histories differing only in how often an id was re-registered earlier
// reach the same canonical state.
func (r *Reg) age(n *Node) int {
	l := r.objs[n.Name]
	for i, o := range l {
		if o == n {
			return len(l) - 1 - i
		}
	}
	return -1
}

// InUse is the statement's definition: some currently registered pipeline lists id.
func (r *Reg) InUse(id string) bool {
	for _, p := range r.MPipes {
		for _, x := range p.IDs {
			if x == id {
				return true
			}
		}
	}
	return false
}

func polOpt(p string, node bool) []el.Option { return policyOpt(p, node) }

func validPolicy(p string) bool {
	if i := strings.Index(p, "+"); i >= 0 {
		return validPolicy(p[:i]) && validPolicy(p[i+1:])
	}
	return p == "" || p == "allow" || p == "deny"
}

// effectivePolicy: of several (valid) policy options the last one applies.
func effectivePolicy(p string) string {
	if i := strings.LastIndex(p, "+"); i >= 0 {
		return p[i+1:]
	}
	return p
}

var ctxBG = context.Background()

// ctxDone is an already cancelled context: what the registry calls do must not depend on it.
var ctxDone = func() context.Context {
	c, cancel := context.WithCancel(context.Background())
	cancel()
	return c
}()

// RegisterNode registers a fresh object under id. Returns a violation text or "".
func (r *Reg) RegisterNode(id, policy string) string { return r.registerNode(id, policy, false) }

// RegisterNodeSame registers, under id, the very object that is registered under it already (a fresh one
// if there is none): a re-registration that changes nothing but possibly the policy.
func (r *Reg) RegisterNodeSame(id, policy string) string { return r.registerNode(id, policy, true) }

// RegisterNodeAs registers a fresh object of another node type than the id usually has: pipelines
// registered afterwards are judged by the type the id has NOW.
func (r *Reg) RegisterNodeAs(id, policy string, kind el.NodeType) string {
	r.kindOverride = &kind
	defer func() { r.kindOverride = nil }()
	return r.registerNode(id, policy, false)
}

func (r *Reg) registerNode(id, policy string, same bool) string {
	kind, ok := r.Kinds[id]
	if !ok {
		kind = el.NodeTypeFilter
	}
	if r.kindOverride != nil {
		kind = *r.kindOverride
	}
	n := NewNode(r.Log, id, kind, Pass, nil)
	if kind == el.NodeTypeSink {
		n.Script = Drop
	}
	if r.CloseErrIDs[id] {
		n.CloseErr = fmt.Errorf("close of %s fails", id)
	}
	if m, exists := r.MNodes[id]; exists && same {
		n = m.Obj
	}
	closesBefore := r.closes()
	val := n.AsNode()
	var decoy *Node
	switch r.WrapIDs[id] {
	case "w":
		val = Wrapper{Node: n, Inner: CNode{n}}
	case "cw":
		decoy = NewNode(r.Log, "~"+id, kind, Pass, nil)
		val = CWrapper{CNode: CNode{n}, Inner: CNode{decoy}}
	}
	err := r.B.RegisterNode(el.NodeID(id), val, polOpt(policy, true)...)
	r.LastFailed = err != nil
	// re-registering a node id affects only pipelines registered afterwards: an object that a registered
	// pipeline still uses must not be closed by it (what happens to an object nothing uses is not judged)
	for _, p := range r.MPipes {
		for _, o := range p.Objs {
			if o.Closes != closesBefore[o] {
				return fmt.Sprintf("RegisterNode(%q) closed %s, which the registered pipeline %s/%s still uses", id, r.NameOf(o), p.Type, p.ID)
			}
		}
	}
	if n.Closes != closesBefore[n] {
		return fmt.Sprintf("RegisterNode(%q) closed the very object it was given to register (%d -> %d closes)", id, closesBefore[n], n.Closes)
	}
	wantErr := id == "" || !validPolicy(policy)
	if m, exists := r.MNodes[id]; exists && m.Policy == "deny" {
		wantErr = true
	}
	if (err != nil) != wantErr {
		return fmt.Sprintf("RegisterNode(%q, policy %q) returned %v; the overwrite policy in force demands error=%v", id, policy, err, wantErr)
	}
	if err == nil {
		if m, exists := r.MNodes[id]; !exists || m.Obj != n {
			r.objs[id] = append(r.objs[id], n)
			if decoy != nil {
				r.objs["~"+id] = append(r.objs["~"+id], decoy)
			}
		}
		pol := effectivePolicy(policy)
		if pol == "" {
			pol = "allow"
		}
		r.MNodes[id] = &MNode{Obj: n, Policy: pol}
	}
	return ""
}

// WellFormed is C05's acceptance predicate written from the statement.
func (r *Reg) WellFormed(typ, pid string, ids []string) bool {
	if pid == "" || typ == "" || len(ids) == 0 {
		return false
	}
	for _, id := range ids {
		if id == "" {
			return false
		}
	}
	for _, id := range ids {
		if _, ok := r.MNodes[id]; !ok {
			return false
		}
	}
	if len(ids) < 2 {
		return false
	}
	last := r.MNodes[ids[len(ids)-1]].Obj.Typ
	prev := r.MNodes[ids[len(ids)-2]].Obj.Typ
	if last != el.NodeTypeSink {
		return false
	}
	if prev != el.NodeTypeFormatter && prev != el.NodeTypeFormatterFilter {
		return false
	}
	return true
}

func (r *Reg) RegisterPipeline(typ, pid string, ids []string, policy string) (bool, string) {
	nids := make([]el.NodeID, len(ids))
	for i, s := range ids {
		nids[i] = el.NodeID(s)
	}
	err := r.B.RegisterPipeline(el.Pipeline{PipelineID: el.PipelineID(pid), EventType: el.EventType(typ), NodeIDs: nids}, polOpt(policy, false)...)
	r.LastFailed = err != nil
	key := typ + "/" + pid
	want := r.WellFormed(typ, pid, ids) && validPolicy(policy)
	if p, ok := r.MPipes[key]; ok && p.Policy == "deny" {
		want = false
	}
	if (err == nil) != want {
		return false, fmt.Sprintf("RegisterPipeline(%s/%s %v policy %q) returned %v; the statement's acceptance predicate says accept=%v", typ, pid, ids, policy, err, want)
	}
	if err == nil {
		objs := make([]*Node, len(ids))
		for i, id := range ids {
			objs[i] = r.MNodes[id].Obj
		}
		pol := effectivePolicy(policy)
		if pol == "" {
			pol = "allow"
		}
		ver := 1
		if p, ok := r.MPipes[key]; ok {
			ver = p.Ver + 1
		}
		r.MPipes[key] = &MPipe{Type: typ, ID: pid, IDs: append([]string(nil), ids...), Objs: objs, Policy: pol, Ver: ver}
	}
	return err == nil, ""
}

func (r *Reg) RemovePipeline(typ, pid string) string {
	err := r.B.RemovePipeline(el.EventType(typ), el.PipelineID(pid))
	r.LastFailed = err != nil
	_, registered := r.MPipes[typ+"/"+pid]
	if err != nil && registered {
		return fmt.Sprintf("RemovePipeline(%s/%s) failed (%v) for a registered pipeline", typ, pid, err)
	}
	if (typ == "" || pid == "") && err == nil {
		return fmt.Sprintf("RemovePipeline(%q,%q) accepted an empty argument", typ, pid)
	}
	if err == nil {
		delete(r.MPipes, typ+"/"+pid)
	}
	return ""
}

// closesBefore snapshots close counters of all objects.
func (r *Reg) closes() map[*Node]int {
	m := map[*Node]int{}
	for _, l := range r.objs {
		for _, o := range l {
			m[o] = o.Closes
		}
	}
	return m
}

func (r *Reg) RemovePipelineAndNodes(typ, pid string) string {
	return r.removePipelineAndNodes(ctxBG, typ, pid)
}

// RemovePipelineAndNodesCancelled is the same call with an already cancelled context.
func (r *Reg) RemovePipelineAndNodesCancelled(typ, pid string) string {
	return r.removePipelineAndNodes(ctxDone, typ, pid)
}

func (r *Reg) removePipelineAndNodes(ctx context.Context, typ, pid string) string {
	before := r.closes()
	ok, err := r.B.RemovePipelineAndNodes(ctx, el.EventType(typ), el.PipelineID(pid))
	r.LastFailed = !ok
	key := typ + "/" + pid
	p, exists := r.MPipes[key]
	if !exists {
		if ok {
			return fmt.Sprintf("RemovePipelineAndNodes(%s) returned true although no such pipeline is registered", key)
		}
		if err == nil {
			return fmt.Sprintf("RemovePipelineAndNodes(%s) = (false, nil): failed precondition without error", key)
		}
		return r.noCloses(before, "failed RemovePipelineAndNodes("+key+")")
	}
	if !ok {
		if r.FalseIsFailure {
			return ""
		}
		return fmt.Sprintf("RemovePipelineAndNodes(%s) returned false (%v) for a registered pipeline", key, err)
	}
	delete(r.MPipes, key)
	// exactly those of its nodes that no remaining pipeline lists are closed (once) and unregistered
	wantClosed := map[*Node]bool{}
	wantErr := false
	seen := map[string]bool{}
	for _, id := range p.IDs {
		if seen[id] {
			continue
		}
		seen[id] = true
		if r.InUse(id) {
			continue
		}
		if m, ok := r.MNodes[id]; ok {
			wantClosed[m.Obj] = true
			if m.Obj.CloseErr != nil {
				wantErr = true
			}
			delete(r.MNodes, id)
		}
	}
	if msg := r.checkCloses(before, wantClosed, "RemovePipelineAndNodes("+key+")"); msg != "" {
		return msg
	}
	if (err != nil) != wantErr {
		return fmt.Sprintf("RemovePipelineAndNodes(%s) returned (true, %v); a Close error was expected=%v", key, err, wantErr)
	}
	return ""
}

func (r *Reg) noCloses(before map[*Node]int, what string) string {
	return r.checkCloses(before, map[*Node]bool{}, what)
}

func (r *Reg) checkCloses(before map[*Node]int, want map[*Node]bool, what string) string {
	var problems []string
	for _, l := range r.objs {
		for _, o := range l {
			d := o.Closes - before[o]
			w := 0
			if want[o] {
				w = 1
			}
			if d != w {
				problems = append(problems, fmt.Sprintf("%s@%d closed %d time(s), expected %d", o.Name, r.age(o), d, w))
			}
			if o.Closes > 1 {
				problems = append(problems, fmt.Sprintf("%s@%d has now been closed %d times", o.Name, r.age(o), o.Closes))
			}
		}
	}
	if len(problems) > 0 {
		sort.Strings(problems)
		return what + ": " + strings.Join(problems, "; ")
	}
	return ""
}

func (r *Reg) RemoveNode(id string) string { return r.removeNode(ctxBG, id) }

// RemoveNodeCancelled is the same call with an already cancelled context.
func (r *Reg) RemoveNodeCancelled(id string) string { return r.removeNode(ctxDone, id) }

func (r *Reg) removeNode(ctx context.Context, id string) string {
	before := r.closes()
	err := r.B.RemoveNode(ctx, el.NodeID(id))
	r.LastFailed = err != nil
	m, registered := r.MNodes[id]
	switch {
	case id == "" || !registered:
		if err == nil {
			return fmt.Sprintf("RemoveNode(%q) succeeded although no such node is registered", id)
		}
		if registered == false && id != "" && !errors.Is(err, el.ErrNodeNotFound) {
			return fmt.Sprintf("RemoveNode(%q) of an unregistered id returned %v, not ErrNodeNotFound", id, err)
		}
		return r.noCloses(before, "failed RemoveNode("+id+")")
	case r.InUse(id):
		if err == nil {
			return fmt.Sprintf("RemoveNode(%q) removed a node that a registered pipeline still lists", id)
		}
		return r.noCloses(before, "refused RemoveNode("+id+")")
	default:
		// registered and not in use: must close once and unregister
		if err != nil && m.Obj.CloseErr == nil {
			return fmt.Sprintf("RemoveNode(%q) refused (%v) although no currently registered pipeline lists the node: it is pinned", id, err)
		}
		if err == nil && m.Obj.CloseErr != nil {
			return fmt.Sprintf("RemoveNode(%q) swallowed the node's Close error", id)
		}
		delete(r.MNodes, id)
		return r.checkCloses(before, map[*Node]bool{m.Obj: true}, "RemoveNode("+id+")")
	}
}

// SendProbe sends an event of type typ and returns which objects were invoked
// (sorted), after comparing with the model's chains.
func (r *Reg) SendProbe(typ string) (string, string) {
	r.sends++
	payload := fmt.Sprintf("probe-%d", r.sends)
	for _, l := range r.objs {
		for _, o := range l {
			o.ProbeTag = r.nameOf(o)
		}
	}
	st, err := r.B.Send(ctxBG, el.EventType(typ), payload)
	var got []string
	for _, inv := range r.Log.Invs() {
		if inv.InPay == any(payload) {
			if o := r.objByLog(inv.Node, inv); o != "" {
				got = append(got, o)
			}
		}
	}
	sort.Strings(got)
	var want []string
	n := 0
	for _, p := range r.MPipes {
		if p.Type != typ {
			continue
		}
		n++
		for _, o := range p.Objs {
			want = append(want, fmt.Sprintf("%s@%d", o.Name, r.age(o)))
			if o.Script == Drop {
				break
			}
		}
	}
	sort.Strings(want)
	if n == 0 && err != nil && len(got) == 0 {
		// whether an event type without pipelines is "unknown" (error) or merely
		// empty is not part of any property: both are accepted
		return "no-pipelines(err)", ""
	}
	if fmt.Sprint(got) != fmt.Sprint(want) {
		return "", fmt.Sprintf("Send(%s) invoked %v, the registered pipelines are %v", typ, got, want)
	}
	if err != nil || len(st.Complete()) != n {
		return "", fmt.Sprintf("Send(%s): err=%v complete=%v, want %d completed pipelines", typ, err, st.Complete(), n)
	}
	return fmt.Sprint(got), ""
}

// objByLog cannot distinguish objects of the same id by name (they share the
// id as name): each invocation is attributed by pointer through the log's
// node name + the object list.
func (r *Reg) objByLog(name string, inv Inv) string {
	// recording nodes log their Name (= node id); identify the object through
	// the unique pointer kept in the invocation's Out/In fields is impossible,
	// so objects carry their generation in Tag.
	return inv.Tag
}

func (r *Reg) IsAny(typ string) string {
	got := r.B.IsAnyPipelineRegistered(el.EventType(typ))
	want := false
	for _, p := range r.MPipes {
		if p.Type == typ {
			want = true
		}
	}
	if got != want {
		return fmt.Sprintf("IsAnyPipelineRegistered(%s)=%v but the registered pipelines for it are: %v", typ, got, want)
	}
	return ""
}

// Namer for dumps: objects are named id@age.
func (r *Reg) nameOf(n *Node) string { return fmt.Sprintf("%s@%d", n.Name, r.age(n)) }

// Key is the canonical state: the Broker's entire private state with harness
// objects named by (id, age), plus the model.
func (r *Reg) Key() string {
	for _, l := range r.objs {
		for _, o := range l {
			o.DumpName = r.nameOf(o) + fmt.Sprintf("c%d", o.Closes)
		}
	}
	return vrt.Dump(r.B, nil) + " || " + r.ModelKey()
}

func (r *Reg) ModelKey() string {
	var parts []string
	for id, m := range r.MNodes {
		parts = append(parts, fmt.Sprintf("N %s=%s%s pol=%s", id, r.nameOf(m.Obj), kindMark(r, m.Obj), m.Policy))
	}
	for k, p := range r.MPipes {
		var os []string
		for _, o := range p.Objs {
			os = append(os, r.nameOf(o)+kindMark(r, o))
		}
		parts = append(parts, fmt.Sprintf("P %s %v %v pol=%s", k, p.IDs, os, p.Policy))
	}
	sort.Strings(parts)
	return strings.Join(parts, ";")
}

// kindMark: an object whose node type is not the one its id usually has (RegisterNodeAs) is a different state.
func kindMark(r *Reg, o *Node) string {
	if k, ok := r.Kinds[o.Name]; ok && k == o.Typ {
		return ""
	}
	if _, ok := r.Kinds[o.Name]; !ok && o.Typ == el.NodeTypeFilter {
		return ""
	}
	return ":" + TypeLetter(o.Typ)
}

// Projection is C05's observable projection of the registry, taken from the
// implementation only (never from the model), each probe on its own replayed
// copy of the history so probes do not disturb each other: which objects a
// probe Send reaches per event type, per node id whether RemoveNode would
// remove / refuse / not find it, and IsAnyPipelineRegistered per type.
func Projection(kinds map[string]el.NodeType, closeErr map[string]bool, history []string, types, nodeIDs []string) string {
	replay := func() *Reg {
		r := NewReg(kinds)
		r.CloseErrIDs = closeErr
		in := &RegInstance{R: r, Types: types}
		for _, op := range history {
			in.Apply(op)
		}
		return r
	}
	var parts []string
	base := replay()
	for _, t := range types {
		parts = append(parts, fmt.Sprintf("isany(%s)=%v", t, base.B.IsAnyPipelineRegistered(el.EventType(t))))
	}
	for _, t := range types {
		r := replay()
		for _, l := range r.objs {
			for _, o := range l {
				o.ProbeTag = r.nameOf(o)
			}
		}
		payload := "projection-probe"
		r.B.Send(ctxBG, el.EventType(t), payload)
		var got []string
		for _, inv := range r.Log.Invs() {
			if inv.InPay == any(payload) {
				got = append(got, inv.Tag)
			}
		}
		sort.Strings(got)
		parts = append(parts, fmt.Sprintf("send(%s)->%v", t, got))
	}
	for _, id := range nodeIDs {
		r := replay()
		err := r.B.RemoveNode(ctxBG, el.NodeID(id))
		cls := "removed"
		switch {
		case err == nil:
		case errors.Is(err, el.ErrNodeNotFound):
			cls = "not-registered"
		case strings.Contains(err.Error(), "still in use"):
			cls = "in-use"
		default:
			cls = "removed-with-close-error"
		}
		parts = append(parts, fmt.Sprintf("rmnode(%s)=%s", id, cls))
	}
	return strings.Join(parts, " ")
}

// AllObjects returns every harness node object ever registered.
func (r *Reg) AllObjects() []*Node {
	var out []*Node
	var ids []string
	for id := range r.objs {
		ids = append(ids, id)
	}
	sort.Strings(ids)
	for _, id := range ids {
		out = append(out, r.objs[id]...)
	}
	return out
}

// NameOf is the canonical id@age name of an object.
func (r *Reg) NameOf(n *Node) string { return r.nameOf(n) }
