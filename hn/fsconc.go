package hn

import (
	"bytes"
	"context"
	"fmt"
	"os"
	"path/filepath"
	"sort"
	"strings"
	"time"

	el "github.com/hashicorp/eventlogger"
	"verif/vrt"
)

// FSConc is a concurrent FileSink scenario: writer threads (each a list of
// event sizes) plus optional Reopen thread(s) on one sink.
type FSConc struct {
	Name    string
	Cfg     FSCfg
	Writers [][]int
	Reopens int
	Bound   int
}

func FSConcScenarios(tier string) []FSConc {
	b := 2
	if tier == "thorough" {
		b = 3
	}
	var out []FSConc
	for _, ts := range []bool{false, true} {
		for _, mf := range []int{0, 1} {
			cfg := FSCfg{MaxBytes: 8, MaxFiles: mf, TSOnly: ts}
			out = append(out,
				FSConc{Cfg: cfg, Writers: [][]int{{5}, {9}}, Reopens: 0, Bound: b + 1},
				FSConc{Cfg: cfg, Writers: [][]int{{5, 9}, {8}}, Reopens: 0, Bound: b},
				FSConc{Cfg: cfg, Writers: [][]int{{9}, {5}}, Reopens: 1, Bound: b},
				FSConc{Cfg: cfg, Writers: [][]int{{9}, {5}, {8}}, Reopens: 0, Bound: b - 1},
				FSConc{Cfg: cfg, Writers: [][]int{{9, 3}, {5}}, Reopens: 1, Bound: b - 1},
			)
		}
	}
	out = append(out, FSConc{Cfg: FSCfg{}, Writers: [][]int{{5}, {9}, {4}}, Reopens: 1, Bound: b - 1})
	for i := range out {
		out[i].Name = fmt.Sprintf("concurrent FileSink %s writers=%v reopen-threads=%d", out[i].Cfg, out[i].Writers, out[i].Reopens)
	}
	return out
}

type fsCall struct {
	content   []byte
	call, ret int
	err       error
}

type fsStamps struct{ t int }

//go:norace
func (s *fsStamps) tick() int { s.t++; return s.t }

// Body runs the scenario as the calling controlled thread and checks that the
// files, read oldest to newest, hold every acknowledged event exactly once,
// whole, and in an order consistent with the real-time order of the calls.
func (sc FSConc) Body(scratch string) func() string {
	return func() string {
		dir, err := os.MkdirTemp(scratch, "fsc")
		if err != nil {
			vrt.Fail("harness: %v", err)
		}
		defer os.RemoveAll(dir)
		sub := filepath.Join(dir, "logs")
		fs := &el.FileSink{Path: sub, FileName: fsBase, MaxBytes: sc.Cfg.MaxBytes, MaxFiles: sc.Cfg.MaxFiles, MaxDuration: sc.Cfg.MaxDuration, TimestampOnlyOnRotate: sc.Cfg.TSOnly}
		clk := &fsStamps{}
		var calls []*fsCall
		letter := byte('A')
		for ti, sizes := range sc.Writers {
			var mine []*fsCall
			for _, n := range sizes {
				c := &fsCall{content: append(bytes.Repeat([]byte{letter}, n-1), '\n')}
				letter++
				calls = append(calls, c)
				mine = append(mine, c)
			}
			vrt.GoNamed(fmt.Sprintf("writer%d", ti), func() {
				for _, c := range mine {
					e := &el.Event{Type: "t", Formatted: map[string][]byte{el.JSONFormat: c.content}}
					c.call = clk.tick()
					_, c.err = fs.Process(context.Background(), e)
					c.ret = clk.tick()
				}
			})
		}
		for r := 0; r < sc.Reopens; r++ {
			vrt.GoNamed("reopener", func() {
				if err := fs.Reopen(); err != nil {
					vrt.Fail("Reopen failed: %v", err)
				}
			})
		}
		vrt.Join()
		for _, c := range calls {
			if c.err != nil {
				vrt.Fail("Process failed on a healthy file system: %v", c.err)
			}
		}
		// read the files oldest to newest: timestamped names in order, plain name last
		ents, _ := os.ReadDir(sub)
		var names []string
		for _, e := range ents {
			names = append(names, e.Name())
		}
		sort.Slice(names, func(i, j int) bool {
			pi, pj := names[i] == fsBase, names[j] == fsBase
			if pi != pj {
				return pj
			}
			return names[i] < names[j]
		})
		var all []byte
		for _, n := range names {
			b, _ := os.ReadFile(filepath.Join(sub, n))
			all = append(all, b...)
		}
		// parse whole events
		pos := map[*fsCall]int{}
		rest := all
		idx := 0
		for len(rest) > 0 {
			matched := false
			for _, c := range calls {
				if _, done := pos[c]; !done && bytes.HasPrefix(rest, c.content) {
					pos[c] = idx
					idx++
					rest = rest[len(c.content):]
					matched = true
					break
				}
			}
			if !matched {
				vrt.Fail("the sink's files contain bytes that are not a whole acknowledged event at offset %d: %q (all: %q)", len(all)-len(rest), trunc(string(rest), 40), trunc(string(all), 120))
			}
		}
		if sc.Cfg.MaxFiles == 0 {
			for _, c := range calls {
				if _, ok := pos[c]; !ok {
					vrt.Fail("acknowledged event %q is missing from the files %v (content %q)", c.content, names, trunc(string(all), 120))
				}
			}
		}
		for _, a := range calls {
			for _, b := range calls {
				pa, oka := pos[a]
				pb, okb := pos[b]
				if oka && okb && a.ret < b.call && pa > pb {
					vrt.Fail("event %q was acknowledged before %q was even submitted, but appears after it in the files", a.content, b.content)
				}
				if sc.Cfg.MaxFiles > 0 && !oka && okb && b.ret < a.call {
					vrt.Fail("retention dropped %q although the older %q remains", a.content, b.content)
				}
			}
		}
		order := make([]string, idx)
		for c, p := range pos {
			order[p] = string(c.content[:1])
		}
		return fmt.Sprintf("files=%d order=%s", len(names), strings.Join(order, ""))
	}
}

var _ = time.Now
