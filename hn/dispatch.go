package hn

import (
	"context"
	"errors"
	"fmt"
	"sort"
	"strings"
	"time"

	el "github.com/hashicorp/eventlogger"
	"verif/vrt"
)

// NodeSpec describes one node object of a scenario.
type NodeSpec struct {
	Obj    string // unique object name
	ID     string // node id it is registered under
	Typ    el.NodeType
	Script Script
	// CloseFails: the node's Close reports an error (whoever removes it must still remove it)
	CloseFails bool
}

// HistOp is one step of a registration history.
type HistOp struct {
	Op     string   // node | pipe | rmpipe | rmpipenodes | rmnode
	Obj    string   // node: object name
	ID     string   // node id / pipeline id
	Type   string   // event type
	Nodes  []string // pipe: node ids
	Policy string   // "", "allow", "deny"
}

func (h HistOp) String() string {
	switch h.Op {
	case "node":
		return fmt.Sprintf("RegisterNode(%s=%s %s)", h.ID, h.Obj, h.Policy)
	case "pipe":
		return fmt.Sprintf("RegisterPipeline(%s/%s %v %s)", h.Type, h.ID, h.Nodes, h.Policy)
	}
	return fmt.Sprintf("%s(%s/%s)", h.Op, h.Type, h.ID)
}

// Chain is the expected traversal of one registered pipeline: node objects in order.
type Chain struct {
	Pipe  string
	Type  string
	Nodes []string // object names
}

// Scenario is one closed dispatch configuration.
type Scenario struct {
	Name     string
	Nodes    []NodeSpec
	History  []HistOp
	Chains   []Chain // reference model of what is registered after History
	SendType string
	Cancel   int // 0 none, 1 concurrent canceller thread, 2 cancelled before Send
	Thr      int // -1: leave unset
	ThrSinks int
	// TimePasses: a thread lets an hour of virtual time pass and only then releases the blocked nodes
	TimePasses bool
	Bound      int
	Permute    bool
}

// Obs is what one execution of a scenario observed.
type Obs struct {
	Status       el.Status
	Err          error
	CtxErrAfter  error
	LiveAtReturn string
	Log          *Log
	Payload      any
	CancelBefore bool
	Nodes        map[string]*Node
	Broker       *el.Broker // the broker the Send went through (for follow-up calls by the check)
}

func policyOpt(p string, node bool) []el.Option {
	if i := strings.Index(p, "+"); i >= 0 {
		// several options in one call: an invalid one stays invalid whatever follows it
		return append(policyOpt(p[:i], node), policyOpt(p[i+1:], node)...)
	}
	var pol el.RegistrationPolicy
	switch p {
	case "":
		return nil
	case "allow":
		pol = el.AllowOverwrite
	case "deny":
		pol = el.DenyOverwrite
	case "empty":
		pol = el.RegistrationPolicy("") // an explicitly given empty policy is an invalid value, not "the default"
	default:
		pol = el.RegistrationPolicy(p)
	}
	if node {
		return []el.Option{el.WithNodeRegistrationPolicy(pol)}
	}
	return []el.Option{el.WithPipelineRegistrationPolicy(pol)}
}

// Build creates the broker and applies the history. Setup errors are harness bugs.
func (sc *Scenario) Build(log *Log, gate *vrt.Gate) (*el.Broker, map[string]*Node) {
	b, _ := el.NewBroker()
	objs := map[string]*Node{}
	for _, ns := range sc.Nodes {
		objs[ns.Obj] = NewNode(log, ns.Obj, ns.Typ, ns.Script, gate)
		if ns.CloseFails {
			objs[ns.Obj].CloseErr = fmt.Errorf("close of %s fails", ns.Obj)
		}
	}
	ctx := context.Background()
	for _, h := range sc.History {
		var err error
		switch h.Op {
		case "node":
			err = b.RegisterNode(el.NodeID(h.ID), objs[h.Obj].AsNode(), policyOpt(h.Policy, true)...)
		case "pipe":
			ids := make([]el.NodeID, len(h.Nodes))
			for i, n := range h.Nodes {
				ids[i] = el.NodeID(n)
			}
			err = b.RegisterPipeline(el.Pipeline{PipelineID: el.PipelineID(h.ID), EventType: el.EventType(h.Type), NodeIDs: ids}, policyOpt(h.Policy, false)...)
		case "rmpipe":
			err = b.RemovePipeline(el.EventType(h.Type), el.PipelineID(h.ID))
		case "rmpipenodes":
			var removed bool
			removed, err = b.RemovePipelineAndNodes(ctx, el.EventType(h.Type), el.PipelineID(h.ID))
			if removed {
				err = nil // a node's Close may have complained: the removal itself took place
			}
		case "rmnode":
			err = b.RemoveNode(ctx, el.NodeID(h.ID))
		}
		if err != nil {
			vrt.Fail("harness setup step %s failed: %v", h, err)
		}
	}
	return b, objs
}

var errCallerCause = errors.New("caller's cancellation cause")

// Run executes the scenario's Send as the calling controlled thread.
func (sc *Scenario) Run() *Obs {
	log := &Log{}
	gate := &vrt.Gate{}
	b, objs := sc.Build(log, gate)
	if sc.Thr >= 0 {
		if err := b.SetSuccessThreshold(el.EventType(sc.SendType), sc.Thr); err != nil {
			vrt.Fail("SetSuccessThreshold(%d): %v", sc.Thr, err)
		}
	}
	if sc.ThrSinks >= 0 {
		if err := b.SetSuccessThresholdSinks(el.EventType(sc.SendType), sc.ThrSinks); err != nil {
			vrt.Fail("SetSuccessThresholdSinks(%d): %v", sc.ThrSinks, err)
		}
	}
	// a cancel *cause* distinct from ctx.Err(): Send's error must wrap the context's error
	// (context.Canceled), whatever cause the caller attached
	ctx, cancelCause := context.WithCancelCause(context.Background())
	cancel := func() { cancelCause(errCallerCause) }
	defer cancel()
	o := &Obs{Log: log, Nodes: objs, Broker: b}
	payload := &struct{ X int }{42}
	o.Payload = payload
	switch sc.Cancel {
	case 2:
		cancel()
		o.CancelBefore = true
	case 1:
		vrt.GoNamed("canceller", func() { cancel() })
	}
	if sc.TimePasses {
		// an hour of (virtual) time goes by while nodes are still busy, then they finish: a Send whose
		// caller set no deadline and never cancels waits for them, however long they take
		vrt.GoNamed("time", func() {
			vrt.AdvanceClock(int64(time.Hour))
			gate.Open()
		})
	}
	o.Status, o.Err = b.Send(ctx, el.EventType(sc.SendType), payload)
	o.CtxErrAfter = ctx.Err()
	if vrt.LiveOthers() > 0 {
		o.LiveAtReturn = vrt.DescribeLive()
	}
	gate.Open()
	vrt.Join()
	return o
}

// Signature summarises an observation for distinct-outcome counting.
func (o *Obs) Signature() string {
	c := ids(o.Status.Complete())
	s := ids(o.Status.CompleteSinks())
	inv := make([]string, 0, 8)
	for _, i := range o.Log.Invs() {
		inv = append(inv, i.Node)
	}
	sort.Strings(inv)
	return fmt.Sprintf("c=%v s=%v w=%d err=%v ctx=%v inv=%v", c, s, len(o.Status.Warnings), o.Err != nil, o.CtxErrAfter != nil, inv)
}

func ids(in []el.NodeID) []string {
	out := make([]string, len(in))
	for i, x := range in {
		out[i] = string(x)
	}
	sort.Strings(out)
	return out
}

// ---- reference oracles -------------------------------------------------------

// End describes how one matched traversal ended.
type End struct {
	Pipe     string
	Complete string // node id reported complete ("" if not)
	Sink     bool
	Warn     error
	Full     bool // the traversal reached an end (not cut by cancellation)
}

// MatchChains decomposes the invocation log into one traversal per expected
// chain (brute force with backtracking) and checks C01's order, identity and
// at-most-once rules. With allowPartial (cancelled context) a chain may be
// absent (never started); a started one is complete. It returns the traversal ends.
func (sc *Scenario) MatchChains(o *Obs, allowPartial bool) ([]End, string) {
	invs := o.Log.Invs()
	if o.Log.Overflow() {
		return nil, "invocation log overflow (more than 128 node invocations)"
	}
	for i := range invs {
		if !invs[i].Done {
			return nil, fmt.Sprintf("node %s was invoked but never returned", invs[i].Node)
		}
	}
	spec := map[string]NodeSpec{}
	for _, n := range sc.Nodes {
		spec[n.Obj] = n
	}
	idOf := func(ch Chain, k int) string {
		// the node id this position was registered under: recorded in the history
		return sc.chainNodeID(ch, k)
	}
	var chains []Chain
	for _, ch := range sc.Chains {
		if ch.Type == sc.SendType {
			chains = append(chains, ch)
		}
	}
	used := make([]bool, len(invs))
	ends := make([]End, len(chains))
	var firstErr string
	var rec func(ci int) bool
	rec = func(ci int) bool {
		if ci == len(chains) {
			for i, u := range used {
				if !u {
					if firstErr == "" {
						firstErr = fmt.Sprintf("unexpected invocation of node %s (in=%p): not part of any registered pipeline's traversal of type %q, or a duplicate", invs[i].Node, invs[i].In, sc.SendType)
					}
					return false
				}
			}
			return true
		}
		ch := chains[ci]
		// walk: choose invocation for position k given the previous one
		var walk func(k int, prev int) bool
		walk = func(k int, prev int) bool {
			finish := func(e End) bool {
				ends[ci] = e
				return rec(ci + 1)
			}
			if k == len(ch.Nodes) {
				// ran off the end: previous node was the leaf and returned a non-nil event
				p := invs[prev]
				return finish(End{Pipe: ch.Pipe, Complete: idOf(ch, k-1), Sink: spec[p.Node].Typ == el.NodeTypeSink, Full: true})
			}
			if allowPartial && k == 0 {
				// under cancellation a pipeline may not have been started at all; a traversal that was
				// started still obeys the rules: what follows node k runs iff node k returned an event
				if finish(End{Pipe: ch.Pipe}) {
					return true
				}
			}
			for i := range invs {
				if used[i] || invs[i].Node != ch.Nodes[k] {
					continue
				}
				if k == 0 {
					if invs[i].InType != el.EventType(sc.SendType) || invs[i].InPay != o.Payload || !invs[i].InFmtOK || !invs[i].InTime {
						if firstErr == "" {
							firstErr = fmt.Sprintf("root node %s of pipeline %s received a malformed first event (type=%q payloadSame=%v emptyFormatTable=%v creationTime=%v)", invs[i].Node, ch.Pipe, invs[i].InType, invs[i].InPay == o.Payload, invs[i].InFmtOK, invs[i].InTime)
						}
						continue
					}
				} else {
					p := invs[prev]
					if invs[i].In != p.Out || invs[i].CallSeq < p.RetSeq {
						continue
					}
					if invs[i].InFP != p.OutFP {
						if firstErr == "" {
							firstErr = fmt.Sprintf("node %s of pipeline %s received the event object its predecessor %s returned, but not as it was returned: returned {%s}, received {%s}", invs[i].Node, ch.Pipe, p.Node, p.OutFP, invs[i].InFP)
						}
						continue
					}
				}
				used[i] = true
				ok := false
				switch {
				case invs[i].OutErr != nil:
					ok = finish(End{Pipe: ch.Pipe, Warn: invs[i].OutErr, Full: true})
				case invs[i].Out == nil:
					ok = finish(End{Pipe: ch.Pipe, Complete: idOf(ch, k), Sink: spec[invs[i].Node].Typ == el.NodeTypeSink, Full: true})
				default:
					ok = walk(k+1, i)
				}
				if ok {
					return true
				}
				used[i] = false
			}
			return false
		}
		return walk(0, -1)
	}
	if !rec(0) {
		if firstErr == "" {
			var got []string
			for _, i := range invs {
				got = append(got, fmt.Sprintf("%s(in=%p out=%p err=%v)", i.Node, i.In, i.Out, i.OutErr))
			}
			firstErr = fmt.Sprintf("the node invocations %v cannot be decomposed into exactly one in-order traversal per registered pipeline %v (a pipeline was skipped, a node ran out of order, twice, or with an event its predecessor did not return)", got, chains)
		}
		return nil, firstErr
	}
	return ends, ""
}

func (sc *Scenario) chainNodeID(ch Chain, k int) string {
	// the latest successful "pipe" op for (type,id) in the history carries the ids
	var idsOf []string
	for _, h := range sc.History {
		if h.Op == "pipe" && h.Type == ch.Type && h.ID == ch.Pipe {
			idsOf = h.Nodes
		}
	}
	if k < len(idsOf) {
		return idsOf[k]
	}
	return "?"
}

func multiset(xs []string) map[string]int {
	m := map[string]int{}
	for _, x := range xs {
		m[x]++
	}
	return m
}

// CheckStatus is C02's oracle for one observation given the traversal ends.
func (sc *Scenario) CheckStatus(o *Obs, ends []End, cancelled bool) string {
	var expC, expS []string
	var expW []error
	for _, e := range ends {
		if !e.Full {
			continue
		}
		if e.Warn != nil {
			expW = append(expW, e.Warn)
			continue
		}
		expC = append(expC, e.Complete)
		if e.Sink {
			expS = append(expS, e.Complete)
		}
	}
	gotC, gotS := ids(o.Status.Complete()), ids(o.Status.CompleteSinks())
	mc, ms := multiset(expC), multiset(expS)
	gc, gs := multiset(gotC), multiset(gotS)
	for id, n := range gc {
		if n > mc[id] {
			return fmt.Sprintf("Status.Complete reports %q %d time(s) but only %d traversal(s) ended successfully there (ends=%v)", id, n, mc[id], ends)
		}
	}
	sinkID := map[string]bool{}
	for _, e := range ends {
		if e.Full && e.Sink {
			sinkID[e.Complete] = true
		}
	}
	for id, n := range gs {
		if n > ms[id] {
			return fmt.Sprintf("Status.CompleteSinks reports %q %d time(s) but only %d sink traversal(s) ended successfully there", id, n, ms[id])
		}
	}
	// complete-sinks is exactly the sub-multiset of complete that are sinks
	sinkOnly := map[string]int{}
	nonSinkAlso := map[string]bool{}
	for _, e := range ends {
		if e.Full && e.Warn == nil && !e.Sink {
			nonSinkAlso[e.Complete] = true
		}
	}
	for id, n := range gc {
		if sinkID[id] && !nonSinkAlso[id] {
			sinkOnly[id] = n
		}
	}
	for id, n := range sinkOnly {
		if gs[id] != n {
			return fmt.Sprintf("node %q is a sink reported complete %d time(s) but complete-sinks lists it %d time(s)", id, n, gs[id])
		}
	}
	for id := range gs {
		if !sinkID[id] {
			return fmt.Sprintf("complete-sinks lists %q which did not end a traversal as a sink", id)
		}
	}
	// warnings are the nodes' own errors
	usedW := make([]bool, len(expW))
	for _, w := range o.Status.Warnings {
		found := false
		for i, e := range expW {
			if !usedW[i] && w == e {
				usedW[i], found = true, true
				break
			}
		}
		if !found {
			return fmt.Sprintf("warning %v is not an error returned by a node during this Send (or is reported twice)", w)
		}
	}
	nChains := 0
	for _, ch := range sc.Chains {
		if ch.Type == sc.SendType {
			nChains++
		}
	}
	entries := len(gotC) + len(o.Status.Warnings)
	if !cancelled {
		if entries != nChains {
			return fmt.Sprintf("context not cancelled: completes(%d)+warnings(%d) != registered pipelines(%d)", len(gotC), len(o.Status.Warnings), nChains)
		}
		if len(gotC) != len(expC) || len(gotS) != len(expS) || len(o.Status.Warnings) != len(expW) {
			return fmt.Sprintf("status does not match traversal ends: complete=%v sinks=%v warnings=%d, expected complete=%v sinks=%v warnings=%d", gotC, gotS, len(o.Status.Warnings), expC, expS, len(expW))
		}
	}
	thr, thrS := sc.Thr, sc.ThrSinks
	if thr < 0 {
		thr = 0
	}
	if thrS < 0 {
		thrS = 0
	}
	wantErr := len(gotC) < thr || len(gotS) < thrS
	if wantErr != (o.Err != nil) {
		return fmt.Sprintf("Send error=%v but completes=%d (threshold %d), complete sinks=%d (sink threshold %d)", o.Err, len(gotC), thr, len(gotS), thrS)
	}
	if o.Err != nil && (o.CancelBefore || (cancelled && entries < nChains)) {
		if !errors.Is(o.Err, context.Canceled) {
			return fmt.Sprintf("context was done but Send's error %q does not wrap it", o.Err)
		}
	}
	if !cancelled && o.Err != nil && errors.Is(o.Err, context.Canceled) {
		return "Send's error wraps context.Canceled although the context was never cancelled"
	}
	return ""
}

// Describe renders the scenario for evidence samples and replay files.
func (sc *Scenario) Describe() string {
	var hs []string
	for _, h := range sc.History {
		hs = append(hs, h.String())
	}
	var ns []string
	for _, n := range sc.Nodes {
		ns = append(ns, fmt.Sprintf("%s:%s:%s", n.Obj, TypeLetter(n.Typ), n.Script))
	}
	return fmt.Sprintf("%s nodes=[%s] history=[%s] send=%s cancel=%d thr=%d/%d bound=%d", sc.Name, strings.Join(ns, " "), strings.Join(hs, "; "), sc.SendType, sc.Cancel, sc.Thr, sc.ThrSinks, sc.Bound)
}
