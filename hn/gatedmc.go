package hn

import (
	"context"
	"fmt"
	"reflect"
	"sort"
	"strings"
	"time"
	"unsafe"

	el "github.com/hashicorp/eventlogger"
	"github.com/hashicorp/eventlogger/filters/gated"
	"verif/vrt"
)

// GateCfg is one configuration of the gated.Filter search.
type GateCfg struct {
	Name        string
	Broker      bool
	ComposeFail int // k-th ComposeFrom call fails (0: never)
	SendFail    int // k-th Sender.Send call fails
	GateableAt  int // k-th ComposeFrom returns a Gateable payload
	IDs         []string
}

// RecSender is the harness Sender.
type RecSender struct {
	n      int
	Got    [64]any
	FailAt int
}

var ErrSend = fmt.Errorf("harness: Sender fails at this call")

//go:norace
func (s *RecSender) add(p any) int {
	if s.n < len(s.Got) {
		s.Got[s.n] = p
	}
	s.n++
	return s.n
}

func (s *RecSender) Send(ctx context.Context, t el.EventType, payload interface{}) (el.Status, error) {
	vrt.Point("inside Sender.Send")
	k := s.add(payload)
	if s.FailAt == k {
		return el.Status{}, ErrSend
	}
	return el.Status{}, nil
}

const gateExpiration = time.Second

type heldEv struct {
	seq int
	id  string
}

type mGroup struct {
	id     string
	openAt int64 // clock ns when opened
	seqs   []int
}

// GateInst drives one real gated.Filter and checks C11's and C17's invariants
// from observations only: ComposeFrom arguments, what Process returned, what
// the Sender received, and which events a side-effect-free probe (a flush per
// id on a replayed copy with the clock rewound) still finds gated.
type GateInst struct {
	Cfg     GateCfg
	F       *gated.Filter
	Clk     *Clock
	Rec     *GateRec
	Snd     *RecSender
	seq     int
	history []string
	C17     bool // evaluate the no-lingering invariants (C17) instead of C11's

	groups   []*mGroup      // model: held groups in opening order
	accepted map[int]string // seq -> id for every accepted event
	composed map[int]int    // seq -> number of compositions it appeared in
}

func NewGateInst(cfg GateCfg, c17 bool) *GateInst {
	g := &GateInst{Cfg: cfg, Clk: &Clock{}, Rec: &GateRec{Type: "composite", FailAt: cfg.ComposeFail, GateableAt: cfg.GateableAt}, C17: c17,
		accepted: map[int]string{}, composed: map[int]int{}}
	g.Clk.ns = int64(time.Hour)
	g.F = &gated.Filter{Expiration: gateExpiration, NowFunc: g.Clk.Now}
	if cfg.Broker {
		g.Snd = &RecSender{FailAt: cfg.SendFail}
		g.F.Broker = g.Snd
	}
	return g
}

func (g *GateInst) findGroup(id string) *mGroup {
	for _, gr := range g.groups {
		if gr.id == id {
			return gr
		}
	}
	return nil
}

func (g *GateInst) dropGroup(id string) {
	for i, gr := range g.groups {
		if gr.id == id {
			g.groups = append(g.groups[:i:i], g.groups[i+1:]...)
			return
		}
	}
}

// probeHeld replays the history on a fresh filter and flushes every id with the
// clock rewound to before any expiry: returns id -> seqs still gated.
func (g *GateInst) probeHeld() (map[string][]int, string) {
	c := NewGateInst(g.Cfg, g.C17)
	c.Rec.FailAt, c.Rec.GateableAt = g.Cfg.ComposeFail, g.Cfg.GateableAt
	for _, op := range g.history {
		c.applyRaw(op)
	}
	// no more injected failures while probing
	c.Rec.FailAt, c.Rec.GateableAt = 0, 0
	if c.Snd != nil {
		c.Snd.FailAt = 0
	}
	c.Clk.ns = 0
	held := map[string][]int{}
	for _, id := range g.Cfg.IDs {
		before := c.Rec.N()
		ev := &el.Event{Type: "t", Payload: &GP{ID: id, Flush: true, Seq: -1, Rec: c.Rec}}
		out, err := c.F.Process(context.Background(), ev)
		if err != nil || out == nil {
			return nil, fmt.Sprintf("probe flush for id %s failed: out=%v err=%v", id, out, err)
		}
		comps := c.Rec.All()[before:]
		if len(comps) != 1 {
			return nil, fmt.Sprintf("probe flush for id %s caused %d compositions", id, len(comps))
		}
		var seqs []int
		for _, s := range comps[0].Seqs {
			if s != -1 {
				seqs = append(seqs, s)
			}
		}
		if len(seqs) > 0 {
			held[id] = seqs
		}
	}
	return held, ""
}

// applyRaw performs op on the implementation only; returns what happened.
type rawResult struct {
	out   *el.Event
	err   error
	in    *el.Event
	kind  string
	id    string
	flush bool
	seq   int
	inFP  string // nongate: what the event looked like before Process
}

func (g *GateInst) applyRaw(op string) rawResult {
	f := strings.Fields(op)
	ctx := context.Background()
	r := rawResult{kind: f[0]}
	switch f[0] {
	case "evx":
		// the same as "ev" with an already cancelled context: gating and expiry must not depend on it
		g.seq++
		r.kind = "ev"
		r.id, r.flush, r.seq = f[1], false, g.seq
		r.in = &el.Event{Type: "t", Payload: &GP{ID: r.id, Seq: g.seq, Rec: g.Rec}}
		r.out, r.err = g.F.Process(ctxDone, r.in)
	case "ev":
		g.seq++
		r.id, r.flush, r.seq = f[1], len(f) > 2 && f[2] == "flush", g.seq
		r.in = &el.Event{Type: "t", Payload: &GP{ID: r.id, Flush: r.flush, Seq: g.seq, Rec: g.Rec}}
		r.out, r.err = g.F.Process(ctx, r.in)
	case "nongate":
		// (no creation time, no format table: whatever the event looks like, it passes through as it is)
		r.in = &el.Event{Type: "t", Payload: "plain"}
		r.inFP = fingerprint(r.in)
		r.out, r.err = g.F.Process(ctx, r.in)
	case "emptyid":
		g.seq++
		r.seq = g.seq
		r.in = &el.Event{Type: "t", Payload: &GP{ID: "", Seq: g.seq, Flush: len(f) > 1 && f[1] == "flush", Rec: g.Rec}}
		r.out, r.err = g.F.Process(ctx, r.in)
	case "tick":
		g.Clk.Advance(time.Millisecond)
	case "expire":
		g.Clk.Advance(gateExpiration + time.Millisecond)
	case "half":
		// 0.6 x Expiration: two of these take a group past its expiry although each gap is shorter than it
		g.Clk.Advance(gateExpiration * 6 / 10)
	case "flushall":
		r.err = g.F.FlushAll(ctx)
	case "close":
		r.err = g.F.Close(ctx)
	}
	return r
}

func seqsEq(a, b []int) bool {
	if len(a) != len(b) {
		return false
	}
	for i := range a {
		if a[i] != b[i] {
			return false
		}
	}
	return true
}

// Apply implements seqmc.Instance.
func (g *GateInst) Apply(op string) (string, string) {
	compBefore := g.Rec.N()
	sndBefore := 0
	if g.Snd != nil {
		sndBefore = g.Snd.n
	}
	now := g.Clk.ns
	g.history = append(g.history, op)
	r := g.applyRaw(op)
	comps := g.Rec.All()[compBefore:]
	var sent []any
	if g.Snd != nil {
		sent = g.Snd.Got[sndBefore:g.Snd.n]
	}
	bad := func(f string, a ...any) (string, string) { return "", fmt.Sprintf(f, a...) }

	// ---- pass-through and rejection rules (C11) ----
	switch r.kind {
	case "nongate":
		if r.err != nil || r.out != r.in {
			return bad("a non-Gateable event must pass through unchanged: got (%p, %v) for input %p", r.out, r.err, r.in)
		}
		if fp := fingerprint(r.out); fp != r.inFP {
			return bad("a non-Gateable event must pass through unchanged: it was {%s}, it is {%s}", r.inFP, fp)
		}
	case "emptyid":
		if r.err == nil {
			return bad("an event without an ID was not rejected (returned %v)", r.out)
		}
	}
	// an injected failure may legitimately abort an operation half-way
	failureFired := false
	for i := range comps {
		k := compBefore + i + 1
		if k == g.Cfg.ComposeFail || k == g.Cfg.GateableAt {
			failureFired = true
		}
	}
	if g.Snd != nil && g.Cfg.SendFail > sndBefore && g.Cfg.SendFail <= g.Snd.n {
		failureFired = true
	}
	accepted := false
	if r.kind == "ev" && r.err == nil {
		accepted = true
		g.accepted[r.seq] = r.id
	}
	// the groups as they stood before this step (composed ones are dropped from g.groups below)
	atStart := append([]*mGroup(nil), g.groups...)
	// ---- I1: every composition is exactly one held group, in arrival order, never twice ----
	ownFlushComposed := false
	for ci, c := range comps {
		gr := g.findGroup(c.ID)
		want := []int{}
		if gr != nil {
			want = append(want, gr.seqs...)
		}
		isOwn := r.kind == "ev" && r.flush && c.ID == r.id && len(c.Seqs) > 0 && c.Seqs[len(c.Seqs)-1] == r.seq
		if isOwn {
			want = append(want, r.seq)
			ownFlushComposed = true
		}
		if !seqsEq(c.Seqs, want) {
			return bad("composition #%d of this step was handed events %v of id %q; the events received for that id since its group opened are %v (lost, duplicated, reordered or mixed across groups)", ci+1, c.Seqs, c.ID, want)
		}
		for _, s := range c.Seqs {
			g.composed[s]++
			if g.composed[s] > 1 {
				return bad("event #%d was handed to composition %d times", s, g.composed[s])
			}
			if _, ok := g.accepted[s]; !ok && !(isOwn && s == r.seq) {
				return bad("event #%d was composed although Process had rejected it", s)
			}
		}
		// ---- I2: doors ----
		k := compBefore + ci + 1
		failed := k == g.Cfg.ComposeFail || k == g.Cfg.GateableAt
		if isOwn {
			if failed && k == g.Cfg.ComposeFail {
				if r.err == nil {
					return bad("composition of the flush event's group failed but Process returned no error")
				}
			} else if !failed {
				if r.err != nil || r.out == nil {
					return bad("flush event for id %q: Process returned (%v, %v), the composite was expected to continue down the pipeline", r.id, r.out, r.err)
				}
				cp, ok := r.out.Payload.(*Composite)
				if !ok || !seqsEq(cp.Seqs, c.Seqs) {
					return bad("flush event for id %q: the returned event does not carry the composite of its group", r.id)
				}
			}
		}
		g.dropGroup(c.ID)
	}
	if r.kind == "ev" && r.flush && r.err == nil && !ownFlushComposed {
		return bad("flush event for id %q was accepted but its group was not composed", r.id)
	}
	if r.kind == "ev" && !r.flush && r.err == nil && r.out != nil {
		return bad("a gated (non-flush) event was forwarded instead of withheld")
	}
	// composites emitted through the Broker are never themselves Gateable, and
	// are exactly the non-own compositions that did not fail, in order
	wantSent := 0
	for ci, c := range comps {
		k := compBefore + ci + 1
		isOwn := r.kind == "ev" && r.flush && c.ID == r.id && len(c.Seqs) > 0 && c.Seqs[len(c.Seqs)-1] == r.seq
		if isOwn || k == g.Cfg.ComposeFail || k == g.Cfg.GateableAt {
			continue
		}
		if g.Snd == nil {
			continue
		}
		if wantSent >= len(sent) {
			return bad("the composite of group %q (events %v) was neither returned nor sent through the Broker", c.ID, c.Seqs)
		}
		cp, ok := sent[wantSent].(*Composite)
		if !ok || !seqsEq(cp.Seqs, c.Seqs) {
			return bad("the Broker received %v where the composite of group %q (events %v) was expected", sent[wantSent], c.ID, c.Seqs)
		}
		wantSent++
	}
	if g.Snd != nil && len(sent) != wantSent {
		return bad("the Broker received %d payload(s) in this step, %d composite(s) were due", len(sent), wantSent)
	}
	for _, p := range sent {
		if _, isG := p.(gated.Gateable); isG {
			return bad("a Gateable payload was emitted through the Broker")
		}
	}
	// ---- model update: the accepted event joins / opens its group ----
	if accepted && !r.flush {
		gr := g.findGroup(r.id)
		if gr == nil {
			gr = &mGroup{id: r.id, openAt: now}
			g.groups = append(g.groups, gr)
		}
		gr.seqs = append(gr.seqs, r.seq)
	}
	// ---- held set from the implementation (probe) vs the model ----
	held, perr := g.probeHeld()
	if perr != "" {
		return bad("%s", perr)
	}
	expired := func(gr *mGroup) bool { return now > gr.openAt+int64(gateExpiration) }
	sweeping := r.kind == "ev" // Process of a Gateable event with an ID sweeps expired groups
	var kept []*mGroup
	for _, gr := range g.groups {
		h, ok := held[gr.id]
		if ok && seqsEq(h, gr.seqs) {
			delete(held, gr.id)
			kept = append(kept, gr)
			continue
		}
		if ok {
			return bad("id %q: the filter still gates events %v, the events received since the group opened are %v", gr.id, h, gr.seqs)
		}
		// the group vanished without a composition in this step: a discard
		permitted := false
		switch {
		case g.Snd == nil && (r.kind == "flushall" || r.kind == "close"):
			permitted = true
		case g.Snd == nil && sweeping && expired(gr):
			permitted = true
		}
		if !permitted {
			return bad("accepted events %v of id %q were discarded without being handed to composition (step %q; Broker configured=%v, group expired=%v)", gr.seqs, gr.id, op, g.Snd != nil, expired(gr))
		}
	}
	for id, h := range held {
		return bad("the filter gates events %v under id %q that the model does not know as accepted and pending", h, id)
	}
	before := g.groups
	g.groups = kept
	// ---- C11 and C17: FlushAll/Close hand over every withheld event ----
	if !failureFired && (r.kind == "flushall" || r.kind == "close") && r.err == nil && len(g.groups) != 0 {
		var left []string
		for _, gr := range g.groups {
			left = append(left, fmt.Sprintf("%s%v", gr.id, gr.seqs))
		}
		return bad("%s returned nil but %d group(s) remain gated and were not handed to composition: %v (held before: %d)", r.kind, len(g.groups), left, len(before))
	}
	// ---- C17: no lingering ----
	// "after any successful Process call at T": a call that reports success has nothing expired left
	// behind, whether or not a composition or the Broker failed on the way (if one did, success is the lie)
	if g.C17 && sweeping && r.err == nil {
		for _, gr := range g.groups {
			if expired(gr) {
				return bad("after a successful Process at T the group of id %q (events %v) opened %v before T is still gated although it expired (Expiration %v)", gr.id, gr.seqs, time.Duration(now-gr.openAt), gateExpiration)
			}
		}
	}
	if g.C17 && !failureFired {
		// expired groups are emitted oldest first: the compositions of a sweeping step (other than the own
		// flush) follow opening order. (FlushAll / Close only promise "each exactly once".)
		last := int64(-1)
		for _, c := range comps {
			if !sweeping {
				break
			}
			for _, gr := range atStart {
				if gr.id == c.ID && seqsEq(gr.seqs, c.Seqs) {
					if gr.openAt < last {
						return bad("groups were emitted out of order: %q (opened at %d) after a younger group", gr.id, gr.openAt)
					}
					last = gr.openAt
				}
			}
		}
	}
	return fmt.Sprintf("%s err=%v comps=%d sent=%d held=%d", r.kind, r.err != nil, len(comps), len(sent), len(g.groups)), ""
}

// Key is the canonical state: the filter's private state with events named by
// their rank among the pending events and times relative to now.
func (g *GateInst) Key() string {
	rank := map[int]int{}
	var all []int
	for _, gr := range g.groups {
		all = append(all, gr.seqs...)
	}
	sort.Ints(all)
	for i, s := range all {
		rank[s] = i
	}
	var parts []string
	for _, gr := range g.groups {
		var rs []int
		for _, s := range gr.seqs {
			rs = append(rs, rank[s])
		}
		age := g.Clk.ns - gr.openAt
		parts = append(parts, fmt.Sprintf("%s%v age=%d", gr.id, rs, age))
	}
	fk := min(g.Rec.N(), max(g.Cfg.ComposeFail, g.Cfg.GateableAt)+1)
	sk := 0
	if g.Snd != nil {
		sk = min(g.Snd.n, g.Cfg.SendFail+1)
	}
	rankOf = rank
	defer func() { rankOf = nil }()
	impl := vrt.Dump(g.F, func(t reflect.Type, field string) bool {
		return field == "exp" || field == "NowFunc" || field == "Broker" || field == "composeFrom" || field == "CreatedAt" || field == "Rec" || field == "Seq"
	})
	return strings.Join(parts, ";") + fmt.Sprintf("|c%d s%d|", fk, sk) + impl
}

var rankOf map[int]int

// VerifName makes pending GP payloads dump as id:rank instead of their absolute sequence number.
func (p *GP) VerifName() string {
	if rankOf != nil {
		if r, ok := rankOf[p.Seq]; ok {
			return fmt.Sprintf("gp:%s:%d:%v", p.ID, r, p.Flush)
		}
	}
	return fmt.Sprintf("gp:%s:#%d:%v", p.ID, p.Seq, p.Flush)
}

// PrivateExpiries reads, by reflection, the expiry instants of the groups the
// filter currently holds (id -> exp). ok=false if the private layout is not the
// one this helper knows (the caller then skips its white-box invariant).
func PrivateExpiries(f *gated.Filter) (map[string]time.Time, bool) {
	defer func() { recover() }()
	fv := reflect.ValueOf(f).Elem().FieldByName("gated")
	if !fv.IsValid() || fv.Kind() != reflect.Map {
		return nil, false
	}
	fv = reflect.NewAt(fv.Type(), unsafe.Pointer(fv.UnsafeAddr())).Elem()
	out := map[string]time.Time{}
	for _, k := range fv.MapKeys() {
		ge := fv.MapIndex(k)
		if ge.Kind() != reflect.Ptr || ge.IsNil() {
			return nil, false
		}
		ex := ge.Elem().FieldByName("exp")
		if !ex.IsValid() || ex.Type() != reflect.TypeOf(time.Time{}) {
			return nil, false
		}
		p := reflect.New(ge.Elem().Type())
		p.Elem().Set(reflect.NewAt(ge.Elem().Type(), unsafe.Pointer(ge.Pointer())).Elem())
		ex = p.Elem().FieldByName("exp")
		ex = reflect.NewAt(ex.Type(), unsafe.Pointer(ex.UnsafeAddr())).Elem()
		out[k.String()] = ex.Interface().(time.Time)
	}
	return out, true
}
