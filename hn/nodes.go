// Package hn holds the harness nodes and the dispatch harness shared by the
// Broker checks: recording nodes whose logs are pre-allocated //go:norace
// arrays (so they neither race nor add happens-before edges that could mask a
// library race), scenario descriptions, and the reference oracles.
package hn

import (
	"context"
	"fmt"
	"sort"

	el "github.com/hashicorp/eventlogger"
	"verif/vrt"
)

// Script is what a recording node does with an event.
type Script int

const (
	Pass Script = iota
	Replace
	Drop
	Err
	Block  // wait on the harness gate, then pass
	ErrEv  // return the event AND an error (the error must still stop the traversal)
	ErrCtx // fail with the node's own, private timeout: an error that wraps context.DeadlineExceeded
)

var scriptNames = [...]string{"pass", "replace", "drop", "err", "block", "err+event", "err(ctx-like)"}

func (s Script) String() string { return scriptNames[s] }

// Inv is one recorded node invocation.
type Inv struct {
	Node    string
	Tag     string
	In      *el.Event
	InType  el.EventType
	InPay   any
	InFmtOK bool // Formatted non-nil and empty at call time
	InTime  bool // CreatedAt non-zero
	Out     *el.Event
	OutErr  error
	InFP    string // content of the event at call time / of the returned event at return time: a node
	OutFP   string // must receive exactly what its predecessor returned, not just the same pointer
	CallSeq int
	RetSeq  int
	Done    bool
}

// Log is the shared recorder of one execution.
type Log struct {
	n    int
	seq  int
	invs [128]Inv
	over bool
}

//go:norace
func (l *Log) call(node string, e *el.Event) int { return l.callTag(node, "", e) }

//go:norace
func (l *Log) callTag(node, tag string, e *el.Event) int {
	if l.n >= len(l.invs) {
		l.over = true
		return -1
	}
	i := l.n
	l.n++
	l.seq++
	inv := &l.invs[i]
	inv.Node, inv.Tag, inv.In, inv.CallSeq = node, tag, e, l.seq
	if e != nil {
		inv.InType, inv.InPay = e.Type, e.Payload
		inv.InFmtOK = e.Formatted != nil && len(e.Formatted) == 0
		inv.InTime = !e.CreatedAt.IsZero()
		inv.InFP = fingerprint(e)
	}
	return i
}

//go:norace
func (l *Log) ret(i int, out *el.Event, err error) {
	if i < 0 {
		return
	}
	l.seq++
	inv := &l.invs[i]
	inv.Out, inv.OutErr, inv.RetSeq, inv.Done = out, err, l.seq, true
	if out != nil {
		inv.OutFP = fingerprint(out)
	}
}

// fingerprint renders what a node can observe of an event.
//
//go:norace
func fingerprint(e *el.Event) string {
	keys := make([]string, 0, len(e.Formatted))
	for k := range e.Formatted {
		keys = append(keys, k)
	}
	sort.Strings(keys)
	s := fmt.Sprintf("type=%q created=%d payload=%T:%v formats=[", e.Type, e.CreatedAt.UnixNano(), e.Payload, e.Payload)
	for _, k := range keys {
		s += fmt.Sprintf("%s=%q ", k, e.Formatted[k])
	}
	return s + "]"
}

//go:norace
func (l *Log) Invs() []Inv { return l.invs[:l.n] }

//go:norace
func (l *Log) Overflow() bool { return l.over }

// NodeErr is the unique error value an erroring node returns.
type NodeErr struct{ Node string }

func (e *NodeErr) Error() string { return "node " + e.Node + " failed" }

// Node is a recording node.
type Node struct {
	Name   string
	Typ    el.NodeType
	Script Script
	L      *Log
	Gate   *vrt.Gate
	TheErr *NodeErr
	CtxErr error

	Closes           int
	Reopens          int
	CloseErr         error
	ReopenErr        error
	OnProcess        func(ctx context.Context, e *el.Event) // optional re-entrancy hook
	OnClose          func(ctx context.Context)
	OnReopen         func()
	NoCloser         bool
	Yield            bool // scheduling point inside Process (a node takes time)
	BlockOnlyPayload bool // Block script: only events carrying BlockPayload wait on the gate
	BlockPayload     interface{}
	ProbeTag         string // what probe Sends report for this object
	DumpName         string // canonical name used in state dumps and probe logs (set by the harness)
	serial           int
}

func (n *Node) VerifName() string {
	if n.DumpName != "" {
		return "node:" + n.DumpName
	}
	return "node:" + n.Name
}

func (n *Node) Process(ctx context.Context, e *el.Event) (*el.Event, error) {
	i := n.L.callTag(n.Name, n.probeTag(), e)
	if n.OnProcess != nil {
		n.OnProcess(ctx, e)
	}
	if n.Yield {
		vrt.Point("inside node " + n.Name)
	}
	var out *el.Event
	var err error
	switch n.Script {
	case Pass:
		out = e
	case Replace:
		// a replacement that shares nothing with the event it replaces: no type, no creation time, its own
		// format table; whatever it looks like, the next node must receive exactly this
		out = &el.Event{Formatted: map[string][]byte{"by": []byte(n.Name)}, Payload: fmt.Sprintf("repl-%s-%d", n.Name, n.nextSerial())}
	case Drop:
	case Err:
		err = n.TheErr
	case ErrEv:
		out, err = e, n.TheErr
	case ErrCtx:
		err = n.CtxErr
	case Block:
		if !n.BlockOnlyPayload || e.Payload == n.BlockPayload {
			n.Gate.Wait()
		}
		out = e
	}
	n.L.ret(i, out, err)
	return out, err
}

//go:norace
func (n *Node) probeTag() string { return n.ProbeTag }

//go:norace
func (n *Node) nextSerial() int { n.serial++; return n.serial }

//go:norace
func (n *Node) noteReopen() { n.Reopens++ }

//go:norace
func (n *Node) noteClose() { n.Closes++ }

func (n *Node) Reopen() error {
	n.noteReopen()
	if n.OnReopen != nil {
		n.OnReopen()
	}
	return n.ReopenErr
}

func (n *Node) Type() el.NodeType { return n.Typ }

// CNode is a Node that also implements eventlogger.Closer.
type CNode struct{ *Node }

func (n CNode) Close(ctx context.Context) error {
	n.noteClose()
	if n.OnClose != nil {
		n.OnClose(ctx)
	}
	return n.CloseErr
}

// Wrapper is a node that wraps another one (NodeUnwrapper); Inner may be nil,
// e.g. a lazily opened sink that was never opened.
type Wrapper struct {
	*Node
	Inner el.Node
}

func (w Wrapper) Unwrap() el.Node { return w.Inner }

// CWrapper is a decorator that closes AND unwraps: NodeController.Close asks for a Closer before it
// unwraps, so the Broker must call the decorator's own Close and leave the wrapped node to it.
type CWrapper struct {
	CNode
	Inner el.Node
}

func (w CWrapper) Unwrap() el.Node { return w.Inner }

// NewNode builds a recording node; with closer=true the returned value
// implements Closer.
func NewNode(l *Log, name string, typ el.NodeType, s Script, gate *vrt.Gate) *Node {
	return &Node{Name: name, Typ: typ, Script: s, L: l, Gate: gate, TheErr: &NodeErr{Node: name},
		CtxErr: fmt.Errorf("node %s: private timeout: %w", name, context.DeadlineExceeded)}
}

// AsNode returns the value to register: a Closer unless NoCloser is set.
func (n *Node) AsNode() el.Node {
	if n.NoCloser {
		return n
	}
	return CNode{n}
}

// TypeLetter abbreviates node types in scenario names.
func TypeLetter(t el.NodeType) string {
	switch t {
	case el.NodeTypeFilter:
		return "F"
	case el.NodeTypeFormatter:
		return "M"
	case el.NodeTypeSink:
		return "S"
	case el.NodeTypeFormatterFilter:
		return "X"
	}
	return "U"
}
