package hn

import (
	"fmt"
	"os"
	"path/filepath"
	"sort"
	"strings"
	"syscall"
	"time"

	"verif/hk"
	"verif/vrt"
)

// FSConfigs enumerates the FileSink configurations of C08/C15.
func FSConfigs(tier string) []FSCfg {
	var out []FSCfg
	for _, mb := range []int{0, 8, 64, 300} {
		for mf := 0; mf <= 3; mf++ {
			for _, md := range []time.Duration{0, 30 * time.Millisecond} {
				for _, ts := range []bool{false, true} {
					for v := 0; v < 2; v++ {
						c := FSCfg{MaxBytes: mb, MaxFiles: mf, MaxDuration: md, TSOnly: ts}
						if v == 1 {
							c.Mode, c.PreExisting = 0o666, true // bits the process umask (022, set by the harness) strips
						}
						out = append(out, c)
					}
				}
			}
		}
	}
	return out
}

// FSOps is the operation alphabet for a configuration.
func FSOps(c FSCfg) []string {
	sizes := map[int]bool{1: true, 200: true}
	if c.MaxBytes > 0 {
		for _, s := range []int{c.MaxBytes - 1, c.MaxBytes, c.MaxBytes + 1} {
			if s >= 1 {
				sizes[s] = true
			}
		}
	}
	var ss []int
	for s := range sizes {
		ss = append(ss, s)
	}
	sort.Ints(ss)
	var ops []string
	for _, s := range ss {
		ops = append(ops, fmt.Sprintf("w%d", s))
	}
	return append(ops, "reopen", "extrotate", "extrename", "+1ns", "+31ms")
}

// FSRunHistory executes one operation history on a fresh sink and directory
// inside a controlled execution (virtual clock) and returns the first violation.
func FSRunHistory(c FSCfg, hist []string, c15 bool, scratch string) (viol string, desc string) {
	syscall.Umask(0o022)
	dir, err := os.MkdirTemp(scratch, "fs")
	if err != nil {
		return "harness: " + err.Error(), ""
	}
	defer os.RemoveAll(dir)
	var step int
	x := vrt.Run(vrt.RunOpts{}, func() {
		w := NewFSWorld(c, dir, c15)
		defer w.Close()
		for i, op := range hist {
			step = i
			v := ""
			switch {
			case op[0] == 'w':
				var n int
				fmt.Sscanf(op, "w%d", &n)
				v = w.Write(n)
			case op == "reopen":
				v = w.Reopen()
			case op == "extrotate":
				v = w.ExternalRotate()
			case op == "extrename":
				v = w.ExternalRename()
			case op == "extwipe":
				v = w.ExternalWipe()
			case op == "+1ns":
				v = w.Advance(time.Nanosecond)
			case op == "+31ms":
				v = w.Advance(31 * time.Millisecond)
			case op == "+16ms":
				v = w.Advance(16 * time.Millisecond)
			}
			if v != "" {
				setStr(&viol, fmt.Sprintf("step %d (%s): %s", i+1, op, v))
				return
			}
		}
		setStr(&desc, w.Describe())
	})
	if x.Verdict != vrt.VNone && viol == "" {
		viol = fmt.Sprintf("%s at step %d: %s", x.Verdict, step+1, x.VerdictMsg)
	}
	return
}

//go:norace
func setStr(p *string, v string) { *p = v }

// FSJobs: one job per (configuration, first operation) of the full alphabet,
// plus one per configuration for the long histories over the reduced alphabet.
type FSJob struct {
	Cfg   int
	First int
	Long  bool
	Age   bool // long histories over {1 byte, +16ms, +31ms}: the age of the active file, in steps shorter than MaxDuration
	Wipe  bool // long histories over {1 byte, rotating write, directory removed externally + Reopen, +31ms}
}

// LongOps is the alphabet of a long-history job.
func (j FSJob) LongOps(c FSCfg) []string {
	if j.Age {
		return []string{"w1", "+16ms", "+31ms"}
	}
	if j.Wipe {
		return []string{"w1", FSLongOps(c)[1], "extwipe", "+31ms"}
	}
	return FSLongOps(c)
}

func FSJobList(tier string) []FSJob {
	var out []FSJob
	for ci, c := range FSConfigs(tier) {
		for oi := range FSOps(c) {
			out = append(out, FSJob{Cfg: ci, First: oi})
		}
	}
	for ci, c := range FSConfigs(tier) {
		out = append(out, FSJob{Cfg: ci, Long: true})
		if c.MaxDuration > 0 {
			out = append(out, FSJob{Cfg: ci, Long: true, Age: true})
		}
		out = append(out, FSJob{Cfg: ci, Long: true, Wipe: true})
	}
	return out
}

// FSLongOps is the reduced alphabet for longer histories: files pile up over
// several Reopens / rotations before retention runs.
func FSLongOps(c FSCfg) []string {
	big := 200
	if c.MaxBytes > 0 {
		big = c.MaxBytes + 1
	}
	return []string{"w1", fmt.Sprintf("w%d", big), "reopen", "+31ms"}
}

func FSLongDepth(tier string) int {
	if tier == "thorough" {
		return 7
	}
	return 6
}

func FSDepth(tier string) int {
	if tier == "thorough" {
		return 5
	}
	return 4
}

// FSRunJob enumerates every history of the tier's length that starts with the
// job's first operation.
func FSRunJob(tier string, j FSJob, c15 bool, deadline time.Time, replay []string) *hk.Result {
	res := &hk.Result{}
	cfgs := FSConfigs(tier)
	c := cfgs[j.Cfg]
	ops := FSOps(c)
	scratch := os.Getenv("VERIF_SCRATCH")
	if scratch == "" {
		scratch = filepath.Join("/dev/shm", fmt.Sprintf("verif-fs-%d", os.Getpid()))
	}
	os.MkdirAll(scratch, 0o755)
	name := c.String()
	if replay != nil {
		if v, _ := FSRunHistory(c, replay, c15, scratch); v != "" {
			res.Violations = append(res.Violations, hk.Viol{Name: name, Kind: "oracle", Detail: v, History: replay})
		}
		return res
	}
	depth := FSDepth(tier)
	start := 1
	if j.Long {
		ops = j.LongOps(c)
		depth = FSLongDepth(tier)
		start = 0
		name += " (long histories, reduced alphabet)"
	}
	hist := make([]string, depth)
	if !j.Long {
		hist[0] = ops[j.First]
	}
	var rec func(i int) bool
	rec = func(i int) bool {
		if i == depth {
			if !deadline.IsZero() && time.Now().After(deadline) {
				res.Capped = true
				return false
			}
			v, desc := FSRunHistory(c, hist, c15, scratch)
			res.Add("execs", 1)
			res.Add("steps", int64(depth))
			res.Add("nodes", 1)
			if v != "" {
				res.Violations = append(res.Violations, hk.Viol{Name: name, Kind: "oracle", Detail: v, History: append([]string(nil), hist...)})
				return false
			}
			res.Outcome(shape(desc))
			if len(res.Samples) == 0 && j.First == 0 {
				res.Samples = append(res.Samples, map[string]any{"config": name, "history": append([]string(nil), hist...), "files_at_end": desc})
			}
			return true
		}
		for _, op := range ops {
			hist[i] = op
			if !rec(i + 1) {
				return false
			}
		}
		return true
	}
	rec(start)
	return res
}

// shape abstracts a directory description to its structure (for distinct-outcome counting).
func shape(desc string) string {
	var out []string
	for _, f := range strings.Fields(desc) {
		n := f
		if i := strings.Index(n, "-1"); i >= 0 && strings.HasPrefix(n, "audit-") {
			n = "audit-TS" + n[strings.Index(n, ".log"):]
		}
		out = append(out, n)
	}
	return strings.Join(out, " ")
}
