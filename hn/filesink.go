package hn

import (
	"bytes"
	"context"
	"fmt"
	"os"
	"path/filepath"
	"regexp"
	"strconv"
	"strings"
	"time"

	el "github.com/hashicorp/eventlogger"
	"verif/vrt"
	"verif/vrt/vfs"
)

// FSCfg is one FileSink configuration.
type FSCfg struct {
	MaxBytes    int
	MaxFiles    int
	MaxDuration time.Duration
	TSOnly      bool
	Mode        os.FileMode
	PreExisting bool // a file with the plain name (and foreign mode) exists before the sink starts
}

func (c FSCfg) String() string {
	return fmt.Sprintf("MaxBytes=%d MaxFiles=%d MaxDuration=%v TimestampOnlyOnRotate=%v Mode=%o preexisting=%v", c.MaxBytes, c.MaxFiles, c.MaxDuration, c.TSOnly, c.Mode, c.PreExisting)
}

type fsFile struct {
	path     string
	content  []byte // last observed content
	removed  bool
	bySink   bool  // created by the sink (not a bystander / pre-existing)
	rotated  bool  // no longer the active file
	external bool  // renamed away by the harness ("external rotation")
	stamp    int64 // timestamp in its name, 0 if plain
	byRename bool
}

// FSWorld drives one real FileSink on a real directory with the virtual clock
// and checks C08 (nothing lost, duplicated, reordered or torn; crash states)
// and C15 (rotation triggers, naming, modes, retention) against a reference
// model after every step and at every file-system call the sink makes.
type FSWorld struct {
	Cfg   FSCfg
	Dir   string
	Sub   string
	FS    *el.FileSink
	acked [][]byte
	files []*fsFile
	hooks []string
	viol  string
	C15   bool

	inProcess  bool
	removedNow []*fsFile
	createdNow []*fsFile
	renamedNow []*fsFile
	// reference model
	mOpen      bool
	mBytes     int64
	mOpenedAt  int64
	mOpenedBy  int64 // clock at the end of the call that opened the active file: LastCreated lies in [mOpenedAt, mOpenedBy]
	mActive    *fsFile
	lastStamp  int64
	evNo       int
	extRenames int
	bystanders []string
}

const fsBase = "audit.log"

var stampRe = regexp.MustCompile(`^audit-(\d+)\.log$`)

func NewFSWorld(cfg FSCfg, root string, c15 bool) *FSWorld {
	w := &FSWorld{Cfg: cfg, Dir: root, C15: c15}
	// the sink's directory does not exist yet: it must be created on demand
	w.Sub = filepath.Join(root, "logs")
	if cfg.PreExisting {
		os.MkdirAll(w.Sub, 0o755)
		pre := []byte("PRE-EXISTING\n")
		os.WriteFile(filepath.Join(w.Sub, fsBase), pre, 0o666)
		os.Chmod(filepath.Join(w.Sub, fsBase), 0o666)
		// with rotation enabled and timestamped active files the plain name is
		// outside the sink's name space: the file is a bystander that keeps its content
		w.files = append(w.files, &fsFile{path: filepath.Join(w.Sub, fsBase), content: pre, external: w.rotateEnabled() && !cfg.TSOnly})
		w.acked = append(w.acked, pre)
		// (the last two share the "<base>-" prefix but not the extension: still not the sink's files)
		for _, b := range []string{"other.log", "audit.txt", "xaudit-1.log", "audit-0-archive.tar.gz", "audit-9999999999999999999.log.bak",
			// a sibling sink's files and a look-alike: the sink's own are "<base>-<timestamp><ext>" only
			"audit2.log", "audit2-1700000000000000001.log", "audit_notes.log"} {
			os.WriteFile(filepath.Join(w.Sub, b), []byte("bystander"), 0o644)
			w.bystanders = append(w.bystanders, filepath.Join(w.Sub, b))
		}
	}
	w.FS = &el.FileSink{Path: w.Sub, FileName: fsBase, MaxBytes: cfg.MaxBytes, MaxFiles: cfg.MaxFiles, MaxDuration: cfg.MaxDuration, TimestampOnlyOnRotate: cfg.TSOnly, Mode: cfg.Mode}
	vfs.Hook = w.onHook
	return w
}

func (w *FSWorld) Close() { vfs.Hook = nil }

func (w *FSWorld) fail(f string, a ...any) {
	if w.viol == "" {
		w.viol = fmt.Sprintf(f, a...)
	}
}

func (w *FSWorld) find(path string) *fsFile {
	for _, f := range w.files {
		if !f.removed && f.path == path {
			return f
		}
	}
	return nil
}

func (w *FSWorld) rotateEnabled() bool { return w.Cfg.MaxBytes > 0 || w.Cfg.MaxDuration != 0 }

// onHook runs after every file-system call of the sink: update the tracked
// file identities and check the crash-consistency condition of C08.
func (w *FSWorld) onHook(op, path string) {
	w.hooks = append(w.hooks, op+" "+filepath.Base(path))
	switch op {
	case "openfile":
		if f := w.find(path); f == nil {
			if _, err := os.Stat(path); err == nil {
				nf := &fsFile{path: path, bySink: true}
				if m := stampRe.FindStringSubmatch(filepath.Base(path)); m != nil {
					nf.stamp, _ = strconv.ParseInt(m[1], 10, 64)
				}
				w.files = append(w.files, nf)
				w.createdNow = append(w.createdNow, nf)
			}
		}
	case "rename":
		// the sink renames the plain active file to a timestamped name
		old := filepath.Join(w.Sub, fsBase)
		if _, err := os.Lstat(path); err != nil {
			break // the rename itself failed (nothing under the plain name any more): nothing changed on disk
		}
		if f := w.find(old); f != nil {
			f.path = path
			f.rotated, f.byRename = true, true
			if m := stampRe.FindStringSubmatch(filepath.Base(path)); m != nil {
				f.stamp, _ = strconv.ParseInt(m[1], 10, 64)
			}
			w.renamedNow = append(w.renamedNow, f)
		} else {
			w.fail("the sink renamed a file the harness does not know: %s", path)
		}
	case "remove":
		if f := w.find(path); f != nil {
			f.removed = true
			w.removedNow = append(w.removedNow, f)
		}
	}
	w.checkContents("after " + op + " " + filepath.Base(path) + " (a kill here leaves this state)")
}

// checkContents is C08's core: the tracked files, oldest to newest, removed
// ones included with their last content, concatenate to the acknowledged
// sequence (every hook / crash point and after every step).
func (w *FSWorld) checkContents(when string) {
	var got bytes.Buffer
	for _, f := range w.files {
		if !f.removed {
			b, err := os.ReadFile(f.path)
			if err != nil {
				w.fail("%s: tracked file %s vanished without the sink removing it (%v)", when, filepath.Base(f.path), err)
				return
			}
			f.content = b
		}
		got.Write(f.content)
	}
	want := bytes.Join(w.acked, nil)
	if !bytes.Equal(got.Bytes(), want) {
		w.fail("%s: reading the sink's files oldest to newest (removed ones with their last content) gives %q, the acknowledged events are %q: an event was lost, duplicated, reordered or torn", when, trunc(got.String(), 160), trunc(string(want), 160))
	}
	// only retention may make events disappear, and then what remains is a
	// suffix: every removed file is older than every remaining file of the
	// sink's own name space (externally renamed files are outside it)
	for i, r := range w.files {
		if !r.removed {
			continue
		}
		if w.Cfg.MaxFiles == 0 {
			w.fail("%s: %s was removed although no retention limit is configured", when, filepath.Base(r.path))
		}
		for k := 0; k < i; k++ {
			o := w.files[k]
			if !o.removed && !o.external && len(o.content) > 0 {
				w.fail("%s: retention removed %s while the older %s remains: what is left is not a suffix of the acknowledged events", when, filepath.Base(r.path), filepath.Base(o.path))
			}
		}
	}
	// nothing outside the tracked set may hold event data, nothing tracked may disappear
	ents, _ := os.ReadDir(w.Sub)
	for _, e := range ents {
		p := filepath.Join(w.Sub, e.Name())
		if w.find(p) == nil && !w.isBystander(p) {
			w.fail("%s: unexpected file %s in the sink's directory", when, e.Name())
		}
	}
	for _, b := range w.bystanders {
		if _, err := os.Stat(b); err != nil {
			w.fail("%s: file %s outside the sink's name space was removed", when, filepath.Base(b))
		}
	}
}

func (w *FSWorld) isBystander(p string) bool {
	for _, b := range w.bystanders {
		if b == p {
			return true
		}
	}
	return false
}

func trunc(s string, n int) string {
	if len(s) > n {
		return s[:n] + "…"
	}
	return s
}

func (w *FSWorld) clock() int64 { ns, _ := vrt.ClockNow(); return ns }

func (w *FSWorld) beginOp() {
	w.hooks = w.hooks[:0]
	w.removedNow, w.createdNow, w.renamedNow = nil, nil, nil
}

// activePath is where the model expects the sink to write.
func (w *FSWorld) sinkOpen() bool { return w.mOpen }

// Write sends one event of n bytes through the sink.
func (w *FSWorld) Write(n int) string {
	w.beginOp()
	w.evNo++
	payload := bytes.Repeat([]byte{byte('A' + (w.evNo-1)%26)}, n)
	if n >= 2 {
		payload[n-1] = '\n'
	}
	if n >= 4 {
		payload[1] = '%' // event bytes are data, not a format string
	}
	e := &el.Event{Type: "t", Formatted: map[string][]byte{el.JSONFormat: payload}}
	t0 := w.clock()
	wasOpen := w.mOpen
	rotateDue := wasOpen && ((w.Cfg.MaxBytes > 0 && w.mBytes >= int64(w.Cfg.MaxBytes)) ||
		(w.Cfg.MaxDuration > 0 && time.Duration(t0-w.mOpenedAt) > w.Cfg.MaxDuration))
	_, err := w.FS.Process(context.Background(), e)
	t1 := w.clock()
	if err != nil {
		if w.mActive != nil && w.mActive.external && rotateDue && w.Cfg.TSOnly {
			// the environment moved the plain-named active file away and the sink has not been told to
			// Reopen: a rotation (rename of the plain name) cannot succeed. The write is refused, not
			// acknowledged; the sink has closed its descriptor and starts a fresh file next time.
			w.mOpen = false
			w.checkContents(fmt.Sprintf("after write #%d was refused", w.evNo))
			return w.viol
		}
		w.fail("Process returned an error on a healthy file system: %v", err)
		return w.viol
	}
	w.acked = append(w.acked, payload)
	// --- what happened, from the sink's own file-system calls
	opened := len(w.createdNow) > 0 || w.hookSeen("openfile")
	rotated := wasOpen && opened
	if w.C15 {
		if rotated != rotateDue {
			w.fail("write #%d: the sink rotated=%v before writing, but the active file held %d byte(s) since it was opened %v ago (MaxBytes=%d MaxDuration=%v): rotation was due=%v", w.evNo, rotated, w.mBytes, time.Duration(t0-w.mOpenedAt), w.Cfg.MaxBytes, w.Cfg.MaxDuration, rotateDue)
		}
	}
	if !wasOpen || rotated {
		w.noteOpen(t0, t1, rotated)
	}
	w.mBytes += int64(n)
	w.checkContents(fmt.Sprintf("after write #%d was acknowledged", w.evNo))
	if w.C15 {
		w.checkCounters(t0, t1)
		if rotated {
			w.checkRetention()
		} else if len(w.removedNow) > 0 {
			w.fail("write #%d removed %s although no rotation took place", w.evNo, filepath.Base(w.removedNow[0].path))
		}
	}
	return w.viol
}

func (w *FSWorld) hookSeen(op string) bool {
	for _, h := range w.hooks {
		if strings.HasPrefix(h, op+" ") {
			return true
		}
	}
	return false
}

// noteOpen updates the model after the sink (re)opened its file in [t0,t1].
func (w *FSWorld) noteOpen(t0, t1 int64, rotation bool) {
	if w.mActive != nil && rotation {
		w.mActive.rotated = true
	}
	w.mOpen, w.mBytes, w.mOpenedAt, w.mOpenedBy = true, 0, t0, t1
	// which file is active now
	var act *fsFile
	plain := filepath.Join(w.Sub, fsBase)
	if w.Cfg.TSOnly || !w.rotateEnabled() {
		act = w.find(plain)
		if act == nil {
			w.fail("the active file must carry the plain configured name %s, but no such file exists after the sink opened", fsBase)
			return
		}
	} else {
		if len(w.createdNow) == 0 {
			w.fail("rotation is enabled without TimestampOnlyOnRotate: opening must create a new timestamped file, none was created")
			return
		}
		act = w.createdNow[len(w.createdNow)-1]
	}
	if w.mActive != nil && w.mActive != act {
		w.mActive.rotated = true
	}
	w.mActive = act
	if !w.C15 {
		return
	}
	// naming
	for _, f := range append(append([]*fsFile{}, w.createdNow...), w.renamedNow...) {
		base := filepath.Base(f.path)
		if f.stamp == 0 {
			if base != fsBase {
				w.fail("file %s is neither the plain name nor %s plus a timestamp", base, "audit-<unixnano>.log")
			}
			if !w.Cfg.TSOnly && w.rotateEnabled() {
				w.fail("rotation enabled without TimestampOnlyOnRotate, yet the sink created the plain-named file %s", base)
			}
			continue
		}
		if f.stamp <= w.lastStamp {
			w.fail("timestamp in %s is not strictly greater than the previous one (%d)", base, w.lastStamp)
		}
		if f.stamp < t0 || f.stamp > t1 {
			w.fail("timestamp in %s lies outside the call's clock window [%d,%d]", base, t0, t1)
		}
		w.lastStamp = f.stamp
	}
	if w.Cfg.TSOnly && act.path != plain {
		w.fail("TimestampOnlyOnRotate: the active file is %s, not %s", filepath.Base(act.path), fsBase)
	}
	// modes
	wantMode := os.FileMode(0o600)
	if w.Cfg.Mode != 0 {
		wantMode = w.Cfg.Mode
	}
	if st, err := os.Stat(act.path); err == nil {
		if act.bySink || w.Cfg.Mode != 0 {
			if st.Mode().Perm() != wantMode {
				w.fail("active file %s has mode %o, configured %o (0600 when unset)", filepath.Base(act.path), st.Mode().Perm(), wantMode)
			}
		}
	}
	if st, err := os.Stat(w.Sub); err == nil && !w.Cfg.PreExisting {
		if st.Mode().Perm() != 0o700 {
			w.fail("directory created on demand has mode %o, want 0700", st.Mode().Perm())
		}
	}
}

func (w *FSWorld) checkCounters(t0, t1 int64) {
	if w.FS.BytesWritten != w.mBytes {
		w.fail("FileSink.BytesWritten=%d, bytes acknowledged since the file was opened=%d", w.FS.BytesWritten, w.mBytes)
	}
	lc := w.FS.LastCreated.UnixNano()
	if lc < w.mOpenedAt || lc > w.mOpenedBy {
		w.fail("FileSink.LastCreated=%d is not the time the active file was opened (between %d and %d)", lc, w.mOpenedAt, w.mOpenedBy)
	}
}

// checkRetention: right after a rotation at most MaxFiles rotated files of the
// sink's name space remain, namely the newest; nothing else is ever removed.
func (w *FSWorld) checkRetention() {
	var rotated []*fsFile
	for _, f := range w.files {
		if f.removed || f == w.mActive || f.external {
			continue
		}
		if stampRe.MatchString(filepath.Base(f.path)) {
			rotated = append(rotated, f)
		}
	}
	if w.Cfg.MaxFiles == 0 {
		if len(w.removedNow) > 0 {
			w.fail("MaxFiles=0 (keep everything) but the rotation removed %s", filepath.Base(w.removedNow[0].path))
		}
		return
	}
	if len(rotated) > w.Cfg.MaxFiles {
		w.fail("right after a rotation %d rotated files remain, MaxFiles=%d", len(rotated), w.Cfg.MaxFiles)
	}
	for _, r := range w.removedNow {
		if r == w.mActive || !stampRe.MatchString(filepath.Base(r.path)) {
			w.fail("the rotation removed %s, which is not a rotated file of the sink", filepath.Base(r.path))
		}
		for _, k := range rotated {
			if k.stamp < r.stamp {
				w.fail("retention removed %s but kept the older %s", filepath.Base(r.path), filepath.Base(k.path))
			}
		}
	}
	if len(w.removedNow) > 0 && len(rotated) < w.Cfg.MaxFiles {
		w.fail("retention removed files although only %d rotated file(s) remain (MaxFiles=%d)", len(rotated), w.Cfg.MaxFiles)
	}
}

// Reopen calls FileSink.Reopen.
func (w *FSWorld) Reopen() string {
	w.beginOp()
	t0 := w.clock()
	err := w.FS.Reopen()
	t1 := w.clock()
	if err != nil {
		w.fail("Reopen returned an error on a healthy file system: %v", err)
		return w.viol
	}
	w.noteOpen(t0, t1, false)
	w.checkContents("after Reopen")
	if w.C15 {
		w.checkCounters(t0, t1)
		if len(w.removedNow) > 0 {
			w.fail("Reopen removed %s", filepath.Base(w.removedNow[0].path))
		}
	}
	return w.viol
}

// ExternalRotate is what logrotate does: move the active file away, then ask
// the sink to Reopen.
func (w *FSWorld) ExternalRotate() string {
	if w.mActive == nil || w.mActive.removed || !w.mOpen {
		return w.Reopen()
	}
	if v := w.externalRename(); v != "" {
		return v
	}
	return w.Reopen()
}

// ExternalRename moves the active file away without telling the sink (the first half of what
// logrotate does): the sink's open descriptor keeps writing into the moved file until a Reopen.
func (w *FSWorld) ExternalRename() string {
	if w.mActive == nil || w.mActive.removed || !w.mOpen {
		w.beginOp()
		return w.viol
	}
	return w.externalRename()
}

func (w *FSWorld) externalRename() string {
	w.beginOp()
	if w.mActive == nil || w.mActive.removed {
		return w.viol
	}
	w.extRenames++
	np := filepath.Join(w.Sub, fmt.Sprintf("moved-%d.log", w.extRenames))
	if err := os.Rename(w.mActive.path, np); err != nil {
		w.fail("harness: external rename failed: %v", err)
		return w.viol
	}
	if w.mActive.external {
		// moved away before and moved again now: the earlier name is gone by the harness's own doing
		for i, b := range w.bystanders {
			if b == w.mActive.path {
				w.bystanders = append(w.bystanders[:i:i], w.bystanders[i+1:]...)
				break
			}
		}
	}
	w.mActive.path = np
	w.mActive.external = true
	w.bystanders = append(w.bystanders, np)
	w.checkContents("after the external rename")
	return w.viol
}

// ExternalWipe: the environment removes the sink's whole directory (with every file in it) and asks the
// sink to Reopen. Everything written so far is gone by the environment's doing; the sink must carry on
// in a directory it creates on demand again (the directory is not only created by the first open).
func (w *FSWorld) ExternalWipe() string {
	w.beginOp()
	if err := os.RemoveAll(w.Sub); err != nil {
		w.fail("harness: removing the directory failed: %v", err)
		return w.viol
	}
	w.files, w.acked, w.bystanders, w.mActive = nil, nil, nil, nil
	return w.Reopen()
}

// Advance moves the virtual clock.
func (w *FSWorld) Advance(d time.Duration) string {
	vrt.AdvanceClock(int64(d))
	return w.viol
}

// Describe lists the directory for evidence samples.
func (w *FSWorld) Describe() string {
	var parts []string
	for _, f := range w.files {
		st := ""
		if f.removed {
			st = "(removed)"
		}
		parts = append(parts, fmt.Sprintf("%s%s:%dB", filepath.Base(f.path), st, len(f.content)))
	}
	return strings.Join(parts, " ")
}
