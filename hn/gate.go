package hn

import (
	"fmt"
	"time"

	el "github.com/hashicorp/eventlogger"
)

// GP is the harness's Gateable payload. ComposeFrom records its argument and
// returns a non-Gateable composite of type ComposeType.
type GP struct {
	ID    string
	Flush bool
	Seq   int
	Rec   *GateRec
}

// Composite is what GP.ComposeFrom returns.
type Composite struct {
	ID   string
	Seqs []int
}

// GateRec records compositions; FailAt makes the k-th ComposeFrom fail;
// GateableAt makes it return a Gateable payload.
type GateRec struct {
	n          int
	Composed   [64]Composite
	FailAt     int
	GateableAt int
	Type       el.EventType
}

//go:norace
func (r *GateRec) add(c Composite) int {
	if r.n < len(r.Composed) {
		r.Composed[r.n] = c
	}
	r.n++
	return r.n
}

//go:norace
func (r *GateRec) N() int { return r.n }

//go:norace
func (r *GateRec) All() []Composite { return r.Composed[:r.n] }

var ErrCompose = fmt.Errorf("harness: ComposeFrom fails at this call")

func (g *GP) GetID() string    { return g.ID }
func (g *GP) FlushEvent() bool { return g.Flush }
func (g *GP) ComposeFrom(events []*el.Event) (el.EventType, interface{}, error) {
	c := Composite{}
	for _, e := range events {
		p, ok := e.Payload.(*GP)
		if !ok {
			return "", nil, fmt.Errorf("harness: non-GP payload handed to ComposeFrom")
		}
		c.ID = p.ID
		c.Seqs = append(c.Seqs, p.Seq)
	}
	k := g.Rec.add(c)
	if g.Rec.FailAt == k {
		return "", nil, ErrCompose
	}
	if g.Rec.GateableAt == k {
		return g.Rec.Type, &GP{ID: "composite", Rec: g.Rec}, nil
	}
	cc := c
	return g.Rec.Type, &cc, nil
}

// Clock is a harness-owned clock for gated.Filter.NowFunc.
type Clock struct{ ns int64 }

//go:norace
func (c *Clock) Now() time.Time { return time.Unix(0, 1_700_000_000_000_000_000+c.ns) }

//go:norace
func (c *Clock) Advance(d time.Duration) { c.ns += int64(d) }
