package hn

import (
	"fmt"

	el "github.com/hashicorp/eventlogger"
)

// Builder assembles scenarios with the reference model of the registry kept
// alongside: Chains is updated by the same operations the history records.
type Builder struct {
	sc     *Scenario
	nodeID map[string]string // node id -> object currently registered under it
	pipes  map[string]int    // type/id -> index in sc.Chains
}

func NewBuilder(name string) *Builder {
	return &Builder{sc: &Scenario{Name: name, SendType: "t1", Thr: -1, ThrSinks: -1}, nodeID: map[string]string{}, pipes: map[string]int{}}
}

func (b *Builder) Scenario() *Scenario { return b.sc }

// Node declares a node object and registers it under id.
func (b *Builder) Node(obj, id string, typ el.NodeType, s Script) *Builder {
	found := false
	for _, n := range b.sc.Nodes {
		if n.Obj == obj {
			found = true
		}
	}
	if !found {
		b.sc.Nodes = append(b.sc.Nodes, NodeSpec{Obj: obj, ID: id, Typ: typ, Script: s})
	}
	b.sc.History = append(b.sc.History, HistOp{Op: "node", Obj: obj, ID: id})
	b.nodeID[id] = obj
	return b
}

// CloseFails makes the Close of object obj report an error.
func (b *Builder) CloseFails(obj string) *Builder {
	for i := range b.sc.Nodes {
		if b.sc.Nodes[i].Obj == obj {
			b.sc.Nodes[i].CloseFails = true
		}
	}
	return b
}

// Pipe registers (or overwrites) pipeline typ/id with the given node ids.
func (b *Builder) Pipe(typ, id string, ids ...string) *Builder {
	b.sc.History = append(b.sc.History, HistOp{Op: "pipe", ID: id, Type: typ, Nodes: ids})
	objs := make([]string, len(ids))
	for i, n := range ids {
		objs[i] = b.nodeID[n]
	}
	ch := Chain{Pipe: id, Type: typ, Nodes: objs}
	key := typ + "/" + id
	if i, ok := b.pipes[key]; ok {
		b.sc.Chains[i] = ch
	} else {
		b.pipes[key] = len(b.sc.Chains)
		b.sc.Chains = append(b.sc.Chains, ch)
	}
	return b
}

// RemovePipe removes pipeline typ/id with RemovePipeline.
func (b *Builder) RemovePipe(typ, id string) *Builder {
	b.sc.History = append(b.sc.History, HistOp{Op: "rmpipe", ID: id, Type: typ})
	b.dropChain(typ, id)
	return b
}

// RemovePipeAndNodes removes pipeline typ/id with RemovePipelineAndNodes (its nodes that no other
// pipeline lists are closed and unregistered by the broker).
func (b *Builder) RemovePipeAndNodes(typ, id string) *Builder {
	b.sc.History = append(b.sc.History, HistOp{Op: "rmpipenodes", ID: id, Type: typ})
	var ids []string
	for _, h := range b.sc.History {
		if h.Op == "pipe" && h.Type == typ && h.ID == id {
			ids = h.Nodes
		}
	}
	b.dropChain(typ, id)
	for _, nid := range ids {
		used := false
		for _, h := range b.sc.History {
			if h.Op == "pipe" {
				if _, live := b.pipes[h.Type+"/"+h.ID]; live {
					for _, x := range h.Nodes {
						if x == nid {
							used = true
						}
					}
				}
			}
		}
		if !used {
			delete(b.nodeID, nid)
		}
	}
	return b
}

func (b *Builder) dropChain(typ, id string) {
	key := typ + "/" + id
	i, ok := b.pipes[key]
	if !ok {
		return
	}
	b.sc.Chains = append(b.sc.Chains[:i:i], b.sc.Chains[i+1:]...)
	delete(b.pipes, key)
	for k, v := range b.pipes {
		if v > i {
			b.pipes[k] = v - 1
		}
	}
}

// Std adds a pipeline with fresh nodes F?,M,S of the given scripts: scripts has
// one entry per node; n = len(scripts) in 2..5; layout: filters..., formatter, sink.
func (b *Builder) Std(typ, id string, scripts ...Script) *Builder {
	n := len(scripts)
	ids := make([]string, n)
	for k := 0; k < n; k++ {
		t := el.NodeTypeFilter
		switch {
		case k == n-1:
			t = el.NodeTypeSink
		case k == n-2:
			t = el.NodeTypeFormatter
			if (n+k)%2 == 1 {
				t = el.NodeTypeFormatterFilter
			}
		}
		obj := fmt.Sprintf("%s.%s.n%d", typ, id, k)
		b.Node(obj, obj, t, scripts[k])
		ids[k] = obj
	}
	return b.Pipe(typ, id, ids...)
}
