package shapes

// Grammar: a payload is a spine of 1..D containers ending in a leaf; at one
// level of the spine one sibling may sit before or after the spine element
// (siblings matter because the filter threads a mutable option slice and a
// shared set of tracked maps through its recursion). All derivations are
// enumerated.

var structish = []string{"struct", "pstruct", "sstruct", "spstruct"}

// containers allowed as a struct field / as an untagged-map value / at top level
var asField = []string{"struct", "pstruct", "sstruct", "spstruct", "map", "mapss", "tmap", "tstruct", "stmap", "sptmap"}
var asMapValue = []string{"struct", "pstruct", "sstruct", "spstruct", "map"}
var topLevel = []string{"pstruct", "sstruct", "spstruct", "map", "tmap", "tstruct", "stmap", "sptmap", "struct"}

var taggableKeys = []string{"pub_k", "sec_k", "sen_k", "sen-h_k", "sec-e_k", "sen-r_k", "unt_k", "unk_k", "mix_k"}

func isStructish(k string) bool {
	for _, s := range structish {
		if s == k {
			return true
		}
	}
	return false
}

func siblings() []*Node {
	return []*Node{
		{K: KStr, Name: "Sib", Tag: "secret"},
		{K: KStr, Name: "Sib"},
		{K: "map", Name: "Sib", Kids: []*Node{{K: KStr, Name: "sk"}}},
		{K: "tmap", Name: "Sib", Kids: []*Node{{K: KStr, Name: "sec_sk"}, {K: KStr, Name: "pub_sk"}}},
		{K: "pstruct", Name: "Sib", Kids: []*Node{{K: KStr, Name: "Z", Tag: "sensitive"}}},
	}
}

func mapSiblings() []*Node {
	return []*Node{
		{K: KStr, Name: "sib"},
		{K: KBytes, Name: "sib"},
		{K: "map", Name: "sib", Kids: []*Node{{K: KStr, Name: "sk"}}},
		{K: "pstruct", Name: "sib", Kids: []*Node{{K: KStr, Name: "Z", Tag: "secret"}}},
		{K: KInt, Name: "sib"},
	}
}

// leavesFor returns the leaf nodes that may sit inside container k.
func leavesFor(k string, full bool) []*Node {
	var out []*Node
	switch {
	case isStructish(k):
		kinds, tags := LeafKinds, FieldTags
		if !full {
			tags = []string{"", "public", "sensitive", "secret", "sensitive,hmac-sha256", "secret,encrypt"}
		}
		for _, lk := range kinds {
			for _, t := range tags {
				out = append(out, &Node{K: lk, Name: "X", Tag: t})
			}
		}
	case k == "map":
		for _, lk := range LeafKinds {
			out = append(out, &Node{K: lk, Name: "x"})
		}
	case k == "mapss":
		out = append(out, &Node{K: KStr, Name: "x"})
	case k == "tmap", k == "tstruct", k == "stmap", k == "sptmap":
		for _, key := range taggableKeys {
			out = append(out, &Node{K: KStr, Name: key})
			if full {
				out = append(out, &Node{K: KBytes, Name: key})
			}
		}
	}
	return out
}

func childName(parent string) string {
	if isStructish(parent) {
		return "X"
	}
	return "x"
}

// wrap places inner inside a container of kind k, optionally with a sibling.
func wrap(k string, inner *Node, sib *Node, sibAfter bool) *Node {
	kids := []*Node{inner}
	if sib != nil {
		if sibAfter {
			kids = []*Node{inner, sib}
		} else {
			kids = []*Node{sib, inner}
		}
	}
	return &Node{K: k, Kids: kids}
}

func clone(n *Node) *Node {
	c := *n
	c.Kids = nil
	for _, k := range n.Kids {
		c.Kids = append(c.Kids, clone(k))
	}
	return &c
}

// Spines enumerates all container sequences of the given depth with their
// innermost leaves; siblingLevel < 0 means no sibling.
func Enumerate(maxDepth int, fullLeavesDepth int, emit func(*Node)) {
	var rec func(chain []string)
	rec = func(chain []string) {
		d := len(chain)
		inner := chain[d-1]
		leaves := leavesFor(inner, d <= fullLeavesDepth)
		for _, leaf := range leaves {
			// sibling variants: none, or at each level that can hold one
			type sv struct {
				level int
				sib   *Node
				after bool
			}
			variants := []sv{{-1, nil, false}}
			for lvl := 0; lvl < d; lvl++ {
				var sibs []*Node
				switch {
				case isStructish(chain[lvl]):
					sibs = siblings()
				case chain[lvl] == "map":
					sibs = mapSiblings()
				}
				if d >= 3 && len(sibs) > 2 {
					sibs = sibs[:2]
				}
				for _, s := range sibs {
					variants = append(variants, sv{lvl, s, false}, sv{lvl, s, true})
				}
			}
			for _, v := range variants {
				var node *Node = clone(leaf)
				for lvl := d - 1; lvl >= 0; lvl-- {
					var sib *Node
					if v.level == lvl {
						sib = clone(v.sib)
					}
					node = wrap(chain[lvl], node, sib, v.after)
					if lvl > 0 {
						node.Name = childName(chain[lvl-1])
						if chain[lvl-1] == "tmap" || chain[lvl-1] == "tstruct" || chain[lvl-1] == "stmap" || chain[lvl-1] == "sptmap" {
							node.Name = "unt_k"
						}
					}
				}
				emit(node)
			}
		}
		if d >= maxDepth {
			return
		}
		var next []string
		switch {
		case isStructish(inner):
			next = asField
		case inner == "map":
			next = asMapValue
		}
		for _, k := range next {
			rec(append(append([]string(nil), chain...), k))
		}
	}
	for _, k := range topLevel {
		rec([]string{k})
	}
}

// Count returns the number of shapes Enumerate emits.
func Count(maxDepth, fullLeavesDepth int) int {
	n := 0
	Enumerate(maxDepth, fullLeavesDepth, func(*Node) { n++ })
	return n
}
