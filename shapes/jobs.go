package shapes

import (
	"context"
	"encoding/json"
	"fmt"
	"reflect"
	"sort"
	"strings"
	"time"

	el "github.com/hashicorp/eventlogger"
	"github.com/hashicorp/eventlogger/filters/encrypt"
	"github.com/mitchellh/copystructure"
	wrapping "github.com/hashicorp/go-kms-wrapping/v2"
	"verif/hk"
	"verif/vrt"
)

// The three encrypt.Filter properties share one enumeration; each check keeps
// the problems of its own class.
//
//	C09 leak    C10 copy    C16 crypto

var ops = []encrypt.FilterOperation{encrypt.NoOperation, encrypt.RedactOperation, encrypt.EncryptOperation, encrypt.HmacSha256Operation}

// OverrideMaps returns all 64 maps over {public, sensitive, secret} x {none, redact, encrypt, hmac}
// plus the nil map (index 0 = no overrides).
func OverrideMaps() []map[encrypt.DataClassification]encrypt.FilterOperation {
	out := []map[encrypt.DataClassification]encrypt.FilterOperation{nil}
	for _, p := range ops {
		for _, s := range ops {
			for _, c := range ops {
				out = append(out, map[encrypt.DataClassification]encrypt.FilterOperation{
					encrypt.PublicClassification: p, encrypt.SensitiveClassification: s, encrypt.SecretClassification: c})
			}
		}
	}
	return out
}

func ovName(m map[encrypt.DataClassification]encrypt.FilterOperation) string {
	if m == nil {
		return "none"
	}
	var ks []string
	for k, v := range m {
		if v == "" {
			v = "noop"
		}
		ks = append(ks, fmt.Sprintf("%s=%s", k, v))
	}
	sort.Strings(ks)
	return strings.Join(ks, ",")
}

type Phase struct {
	Name     string
	Depth    int
	Full     int
	Override int // index into OverrideMaps, -1 = all
	Wrappers []string
	Chunks   int
}

// Light selects the reduced enumeration (used by C16, whose oracle does not
// depend on nesting depth and whose binary carries the race detector).
var Light bool

func Phases(tier string) []Phase {
	if Light {
		d := 2
		if tier == "thorough" {
			d = 3
		}
		return []Phase{
			{Name: "default configuration", Depth: d, Full: 1, Override: 0, Wrappers: []string{"present"}, Chunks: 32},
			{Name: "all 64 override maps", Depth: 1, Full: 0, Override: -1, Wrappers: []string{"present"}, Chunks: 32},
		}
	}
	d := 3
	if tier == "thorough" {
		d = 4
	}
	return []Phase{
		{Name: "default configuration", Depth: d, Full: 1, Override: 0, Wrappers: []string{"present"}, Chunks: 64},
		{Name: "all 64 override maps x wrapper present/absent/failing", Depth: 2, Full: 0, Override: -1, Wrappers: []string{"present", "absent", "fail1", "fail2"}, Chunks: 64},
	}
}

type JobSpec struct {
	Phase, Chunk int
}

func JobSpecs(tier string) []JobSpec {
	var out []JobSpec
	for pi, p := range Phases(tier) {
		for c := 0; c < p.Chunks; c++ {
			out = append(out, JobSpec{pi, c})
		}
	}
	return out
}

// RunJob runs one chunk and keeps the problems of class cls.
func RunJob(prop, cls, tier string, js JobSpec, deadline time.Time) *hk.Result {
	res := &hk.Result{}
	ph := Phases(tier)[js.Phase]
	ovs := OverrideMaps()
	idx := 0
	stop := false
	Enumerate(ph.Depth, ph.Full, func(n *Node) {
		i := idx
		idx++
		if stop || i%ph.Chunks != js.Chunk {
			return
		}
		if !deadline.IsZero() && i%512 == 0 && time.Now().After(deadline) {
			res.Capped = true
			stop = true
			return
		}
		lo, hi := ph.Override, ph.Override+1
		if ph.Override < 0 {
			lo, hi = 1, len(ovs)
		}
		for oi := lo; oi < hi; oi++ {
			for _, w := range ph.Wrappers {
				c := Case{Shape: n, Overrides: ovs[oi], Wrapper: w}
				if strings.HasPrefix(w, "fail") {
					c.Wrapper = "fail"
					fmt.Sscanf(w, "fail%d", &c.FailAt)
				}
				name := fmt.Sprintf("shape=%s overrides=%s wrapper=%s", n, ovName(ovs[oi]), w)
				// default configuration: run under both iteration orders of the
				// library's map walks (Go's own order is random)
				orders := []bool{false}
				if ph.Override == 0 && hasMultiEntryMap(n) {
					orders = []bool{false, true}
				}
				var r *Result
				for _, rev := range orders {
					vrt.MapOrderReverse = rev
					r = Run(c)
					vrt.MapOrderReverse = false
					if len(r.Problems) > 0 {
						break
					}
					if rev {
						res.Add("reversed_map_order_cases", 1)
					}
				}
				// default configuration, shallow shapes: also with an already cancelled
				// context (cancellation may make Process fail, never forward a half-filtered event)
				if ph.Override == 0 && len(r.Problems) == 0 && i%3 == 0 {
					cc := c
					cc.CancelledCtx = true
					if rc := Run(cc); len(rc.Problems) > 0 {
						r = rc
						name += " cancelled-context"
					}
					res.Add("cancelled_context_cases", 1)
				}
				res.Add("execs", 1)
				res.Add("steps", 1)
				res.Add("nodes", 1)
				outcome := "forwarded"
				if r.Err != nil {
					outcome = "error"
				} else if r.Out == nil {
					outcome = "dropped"
				}
				for _, p := range r.Problems {
					if p.Class == "over-redaction" {
						res.Add("over_redactions", 1)
						continue
					}
					if p.Class != cls {
						continue
					}
					if !res.AddViolation(prop, hk.Viol{Name: name, Kind: "oracle", Detail: Family(n) + ": " + p.Text + " | " + name}) {
						stop = true
						return
					}
				}
				if cls == "leak" && r.Err != nil && r.Out != nil {
					res.AddViolation(prop, hk.Viol{Name: name, Kind: "oracle", Detail: "Process returned an error and an event | " + name})
				}
				if cls == "copy" {
					if v := identityRule(c, r); v != "" {
						if !res.AddViolation(prop, hk.Viol{Name: name, Kind: "oracle", Detail: Family(n) + ": " + v + " | " + name}) {
							stop = true
							return
						}
					}
				}
				res.Add(outcome, 1)
				if len(res.Outcomes) < 300 {
					res.Outcome(fmt.Sprintf("%s %s %s", Family(n), w, outcome))
				}
				if len(res.Samples) == 0 && js.Chunk == 0 {
					res.Samples = append(res.Samples, name)
				}
			}
		}
	})
	return res
}

func hasMultiEntryMap(n *Node) bool {
	switch n.K {
	case "map", "mapss", "tmap", "stmap", "sptmap", "tstruct":
		if len(n.Kids) > 1 {
			return true
		}
	}
	if n.K == "tstruct" {
		return true
	}
	for _, k := range n.Kids {
		if hasMultiEntryMap(k) {
			return true
		}
	}
	return false
}

// identityRule: with every operation overridden to none the event is forwarded unchanged (same pointer).
func identityRule(c Case, r *Result) string {
	if c.Overrides == nil {
		return ""
	}
	for _, op := range c.Overrides {
		if op != encrypt.NoOperation {
			return ""
		}
	}
	if r.Err != nil || r.Out != r.In {
		return fmt.Sprintf("all operations are overridden to none, yet Process returned (%p, %v) instead of the very event it was given (%p)", r.Out, r.Err, r.In)
	}
	return ""
}

// Family abstracts a shape to its container chain and leaf kind, used to
// identify known findings by the failing input family.
func Family(n *Node) string {
	s := "family[" + n.K
	cur := n
	for {
		var next *Node
		for _, k := range cur.Kids {
			if k.Name == "X" || k.Name == "x" || (strings.HasSuffix(k.Name, "_k")) {
				next = k
			}
		}
		if next == nil {
			break
		}
		if next.IsLeaf() {
			s += ">" + next.K
			if strings.HasSuffix(next.Name, "_k") {
				s += "@" + strings.TrimSuffix(next.Name, "_k")
			}
			break
		}
		s += ">" + next.K
		cur = next
	}
	return s + "]"
}

// ---- special payloads ----------------------------------------------------------------

type rotPayload struct {
	w          wrapping.Wrapper
	salt, info []byte
}

func (r *rotPayload) Wrapper() wrapping.Wrapper { return r.w }
func (r *rotPayload) HmacSalt() []byte          { return r.salt }
func (r *rotPayload) HmacInfo() []byte          { return r.info }

// sealed has only unexported fields: a reflective copy loses them, the copier registered for it keeps them.
type sealed struct {
	n int
	s string
}

func init() {
	copystructure.Copiers[reflect.TypeOf(sealed{})] = func(v interface{}) (interface{}, error) { return v, nil }
}

// docStr / docBytes are defined types with string / []byte underneath; docHolder carries a decoded document.
type docStr string
type docBytes []byte
type docHolder struct{ M map[string]interface{} }

func doc2() interface{} {
	return map[string]interface{}{"l": []interface{}{"CANARYdocT1", map[string]interface{}{"deep": []interface{}{"CANARYdocT2"}}}, "n": docStr("CANARYdocT3")}
}

// badTagMap is a Taggable whose single tag uses the pointer in badTagPointer.
type badTagMap map[string]interface{}

var badTagPointer string

func (m badTagMap) Tags() ([]encrypt.PointerTag, error) {
	return []encrypt.PointerTag{{Pointer: badTagPointer, Classification: encrypt.SensitiveClassification, Filter: encrypt.HmacSha256Operation}}, nil
}

// plainTagMap is a Taggable map that tags nothing.
type plainTagMap map[string]interface{}

func (m plainTagMap) Tags() ([]encrypt.PointerTag, error) { return nil, nil }

// rotPayloadWithID is a rotation payload that also satisfies EventWrapperInfo (it has an EventId):
// it is still a key-rotation payload and must be consumed.
type rotPayloadWithID struct {
	rotPayload
	Secret string `class:"secret"`
}

func (r *rotPayloadWithID) EventId() string { return "rotation-event-1" }

// Specials runs the hand-written payloads: top-level strings and slices, nil /
// zero payloads, rotation payloads.
func Specials(prop, cls string) *hk.Result {
	res := &hk.Result{}
	base := NewWrapper(7)
	mk := func() *encrypt.Filter { return &encrypt.Filter{Wrapper: base} }
	fail := func(name, f string, a ...any) {
		res.AddViolation(prop, hk.Viol{Name: name, Kind: "oracle", Detail: name + ": " + fmt.Sprintf(f, a...)})
	}
	count := func() {
		res.Add("execs", 1)
		res.Add("steps", 1)
		res.Add("nodes", 1)
	}
	ctx := context.Background()
	// top-level *string, *[]byte, []string, [][]byte, []*string: unclassified -> redacted
	s := "CANARYTOPzq"
	bs := []byte("CANARYTOPzq")
	s2 := "CANARYTOPzq"
	for name, p := range map[string]interface{}{
		"*string": &s, "*[]byte": &bs, "[]string": []string{"CANARYTOPzq", "CANARYTOPzq"}, "[][]byte": [][]byte{[]byte("CANARYTOPzq")}, "[]*string": []*string{&s2},
	} {
		count()
		e := &el.Event{Type: "t", Payload: p}
		out, err := mk().Process(ctx, e)
		if cls == "leak" {
			if err == nil && out != nil {
				var sb strings.Builder
				walkStrings(reflect.ValueOf(out.Payload), &sb, 0)
				if strings.Contains(sb.String(), "CANARYTOPzq") {
					fail("top-level "+name, "an unclassified top-level value was forwarded in clear")
				}
			}
		}
		if cls == "copy" {
			var sb strings.Builder
			walkStrings(reflect.ValueOf(p), &sb, 0)
			if !strings.Contains(sb.String(), "CANARYTOPzq") || strings.Contains(sb.String(), encrypt.RedactedData) {
				fail("top-level "+name, "Process modified the payload it was given")
			}
		}
		res.Outcome("special " + name)
	}
	// a []byte passed by value cannot be set either: it must not be forwarded in clear
	count()
	if out, err := mk().Process(ctx, &el.Event{Type: "t", Payload: []byte("CANARYTOPzq")}); cls == "leak" && err == nil && out != nil {
		var sb strings.Builder
		walkStrings(reflect.ValueOf(out.Payload), &sb, 0)
		if strings.Contains(sb.String(), "CANARYTOPzq") {
			fail("top-level []byte value", "an unsettable []byte payload was forwarded in clear without an error")
		}
	}
	// a non-pointer string cannot be set: error, nothing forwarded
	count()
	if out, err := mk().Process(ctx, &el.Event{Type: "t", Payload: "CANARYTOPzq"}); cls == "leak" && (err == nil || out != nil) {
		fail("top-level string value", "an unsettable payload must make Process fail; got (%v, %v)", out, err)
	}
	// nil and zero payloads are forwarded unchanged
	if cls == "copy" {
		for name, p := range map[string]interface{}{"nil": nil, "zero-struct": struct{ A string }{}, "empty-string": "", "zero-int": 0} {
			count()
			e := &el.Event{Type: "t", Payload: p}
			out, err := mk().Process(ctx, e)
			if err != nil || out != e {
				fail("payload "+name, "a nil / zero payload must be forwarded unchanged (same event); got (%p, %v) for %p", out, err, e)
			}
		}
	}
	// IgnoreTypes: values of an ignored type are never filtered - and never
	// modified in place either, wherever they sit in the payload
	if cls == "copy" {
		type ign struct {
			S string `class:"secret"`
			B []byte `class:"sensitive"`
		}
		type holder struct {
			Direct *ign
			Slice  []*ign
			M      map[string]interface{}
			I      interface{}
			Pub    string `class:"public"`
			Sec    string `class:"secret"`
		}
		mkIgn := func() *ign { return &ign{S: "CANARYIGNzq", B: []byte("CANARYIGNzq")} }
		for _, withIgnore := range []bool{true, false} {
			count()
			in := &holder{Direct: mkIgn(), Slice: []*ign{mkIgn()}, M: map[string]interface{}{"k": mkIgn(), "s": "plain"}, I: mkIgn(), Pub: "p", Sec: "CANARYIGNzq"}
			twin := &holder{Direct: mkIgn(), Slice: []*ign{mkIgn()}, M: map[string]interface{}{"k": mkIgn(), "s": "plain"}, I: mkIgn(), Pub: "p", Sec: "CANARYIGNzq"}
			f := mk()
			if withIgnore {
				f.IgnoreTypes = []reflect.Type{reflect.TypeOf(&ign{})}
			}
			_, err := f.Process(ctx, &el.Event{Type: "t", Payload: in})
			if !reflect.DeepEqual(in, twin) {
				fail(fmt.Sprintf("IgnoreTypes configured=%v", withIgnore), "Process modified the payload it was given (an object reachable from the input was filtered in place); err=%v", err)
			}
			res.Outcome(fmt.Sprintf("special ignore-types %v", withIgnore))
		}
	}
	// histories on ONE filter instance: reconfiguring the overrides between events
	{
		shape := &Node{K: "pstruct", Kids: []*Node{{K: KStr, Name: "X", Tag: "secret"}, {K: KStr, Name: "Y", Tag: "sensitive"}, {K: KStr, Name: "Z"}, {K: "map", Name: "M", Kids: []*Node{{K: KStr, Name: "k"}}}}}
		allNone := map[encrypt.DataClassification]encrypt.FilterOperation{encrypt.PublicClassification: encrypt.NoOperation, encrypt.SensitiveClassification: encrypt.NoOperation, encrypt.SecretClassification: encrypt.NoOperation}
		secEnc := map[encrypt.DataClassification]encrypt.FilterOperation{encrypt.SecretClassification: encrypt.EncryptOperation}
		senRed := map[encrypt.DataClassification]encrypt.FilterOperation{encrypt.SensitiveClassification: encrypt.RedactOperation}
		seqs := [][]map[encrypt.DataClassification]encrypt.FilterOperation{
			{allNone, nil}, {nil, allNone, nil}, {secEnc, nil}, {allNone, senRed}, {senRed, allNone, secEnc, nil},
		}
		for si, seq := range seqs {
			f := &encrypt.Filter{Wrapper: base}
			for step, ov := range seq {
				count()
				r := RunOn(f, Case{Shape: shape, Overrides: ov, Wrapper: "keep"})
				name := fmt.Sprintf("one filter, overrides history #%d step %d (%s)", si, step+1, ovName(ov))
				if r.Err != nil {
					fail(name, "Process failed: %v", r.Err)
				}
				for _, p := range r.Problems {
					if p.Class == cls {
						fail(name, "%s", p.Text)
					}
				}
				res.Outcome(name)
			}
		}
	}
	// values of defined string / byte types keep their dynamic type
	if cls == "copy" {
		type status string
		type holder struct {
			M   map[string]interface{}
			Sec string `class:"secret"`
		}
		count()
		in := &holder{M: map[string]interface{}{"st": status("open"), "raw": json.RawMessage(`{"a":1}`), "n": 7}, Sec: "x"}
		func() {
			defer func() {
				if p := recover(); p != nil {
					fail("defined string/byte types in a map", "the filter panicked: %v", p)
				}
			}()
			out, err := mk().Process(ctx, &el.Event{Type: "t", Payload: in})
			if err != nil || out == nil {
				fail("defined string/byte types in a map", "Process failed: %v", err)
				return
			}
			om := out.Payload.(*holder).M
			for k, v := range in.M {
				if reflect.TypeOf(om[k]) != reflect.TypeOf(v) {
					fail("defined string/byte types in a map", "map value %q changed its dynamic type from %T to %T", k, v, om[k])
				}
			}
		}()
		res.Outcome("special defined-types")
	}
	// a type the application registered a copier for (copystructure.Copiers is the library's documented
	// extension point for types a reflective copy cannot handle): its values arrive intact
	if cls == "copy" {
		count()
		type withSealed struct {
			T sealed
			P *sealed
			S string `class:"public"`
		}
		in := &withSealed{T: sealed{n: 41, s: "kept"}, P: &sealed{n: 42, s: "kept too"}, S: "pub"}
		out, err := mk().Process(ctx, &el.Event{Type: "t", Payload: in})
		if err != nil || out == nil {
			fail("registered copier", "Process failed: %v", err)
		} else if o := out.Payload.(*withSealed); o.T != in.T || o.P == nil || *o.P != *in.P {
			fail("registered copier", "a value of a type with a registered copier was not preserved: got %+v / %+v, want %+v / %+v", o.T, o.P, in.T, *in.P)
		}
		res.Outcome("special registered-copier")
	}
	// what a decoded document holds: untagged maps whose values are lists (with strings, []byte, nil, lists,
	// maps, structs inside), values of defined string / []byte types, pointers to strings / []byte, nil.
	// All of it is unclassified data (README: "all of its fields will be filtered as secret data").
	{
		mkDoc := func() (interface{}, interface{}, interface{}, interface{}) {
			ps, pb := "CANARYdocPS", []byte("CANARYdocPB")
			ps2 := "CANARYdocPS2"
			pnb := docBytes(nil)
			doc := map[string]interface{}{
				"l":   []interface{}{"CANARYdocL1", []byte("CANARYdocL2"), nil, []interface{}{"CANARYdocL3", nil}, map[string]interface{}{"k": "CANARYdocL4"}, &struct{ X string }{"CANARYdocL5"}, 7, true},
				"n":   docStr("CANARYdocN"),
				"nb":  docBytes("CANARYdocNB"),
				"ln":  []docStr{"CANARYdocLN"},
				"p":   &ps,
				"pb":  &pb,
				"nil": nil,
				"i":   42,
				// nil values of defined []byte types (json.RawMessage(nil) is what an absent member decodes to)
				"nilraw": json.RawMessage(nil),
				"nilnb":  docBytes(nil),
				"lnil":   []interface{}{docBytes(nil), json.RawMessage(nil)},
				"pnil":   &pnb,
			}
			return &docHolder{M: doc}, doc2(), &struct{ M map[string]*string }{M: map[string]*string{"p": &ps2, "nilp": nil}}, &struct{ M map[string]docStr }{M: map[string]docStr{"n": "CANARYdocMN"}}
		}
		// exactly what encoding/json produces: nothing but map[string]interface{}, []interface{}, string, float64, bool, nil
		mkJSON := func() interface{} {
			var v map[string]interface{}
			if err := json.Unmarshal([]byte(`{"users":[{"name":"CANARYdocJ1","tags":["CANARYdocJ2",null,["CANARYdocJ3"]]},"CANARYdocJ4"],"n":1.5,"ok":true,"none":null,"s":"CANARYdocJ5","m":{"k":"CANARYdocJ6"}}`), &v); err != nil {
				panic(err)
			}
			return v
		}
		a, b, c, d := mkDoc()
		ta, tb, tc, td := mkDoc()
		ins, twins := []interface{}{a, b, c, d, mkJSON()}, []interface{}{ta, tb, tc, td, mkJSON()}
		for i, name := range []string{"document in a struct field", "document as the payload", "map[string]*string", "map of a defined string type", "json.Unmarshal result as the payload"} {
			count()
			var out *el.Event
			var err error
			func() {
				defer func() {
					if p := recover(); p != nil {
						err = fmt.Errorf("PANIC: %v", p)
						fail("decoded-document payload: "+name, "Process panicked: %v", p)
					}
				}()
				out, err = mk().Process(ctx, &el.Event{Type: "t", Payload: ins[i]})
			}()
			if cls == "leak" && err == nil && out != nil {
				var sb strings.Builder
				walkStrings(reflect.ValueOf(out.Payload), &sb, 0)
				if k := strings.Index(sb.String(), "CANARYdoc"); k >= 0 {
					fail("decoded-document payload: "+name, "unclassified data inside an untagged map is readable in the forwarded event: %q", trunc(sb.String()[k:], 40))
				}
			}
			if cls == "copy" {
				if !reflect.DeepEqual(ins[i], twins[i]) {
					fail("decoded-document payload: "+name, "Process modified the payload it was given")
				}
				if err == nil && out != nil {
					if x, y := skeleton(reflect.ValueOf(twins[i]), 0), skeleton(reflect.ValueOf(out.Payload), 0); x != y {
						fail("decoded-document payload: "+name, "the forwarded payload does not have the input's dynamic types / shape: input %s, output %s", trunc(x, 400), trunc(y, 400))
					}
				}
			}
			res.Outcome("special decoded-document " + name)
		}
	}
	// bad tag pointers fail closed: a Taggable whose tag cannot be evaluated (not a pointer at all; a pointer
	// that walks through a scalar) is an error, and nothing is forwarded
	if cls == "leak" {
		for _, ptr := range []string{"user/email", "/id/email"} {
			count()
			tm := badTagMap{"id": "id-12", "user": map[string]interface{}{"email": "CANARYbadptr"}}
			badTagPointer = ptr
			out, err := (&encrypt.Filter{Wrapper: base, HmacSalt: []byte("s"), HmacInfo: []byte("i")}).Process(ctx, &el.Event{Type: "t", Payload: tm})
			if err == nil || out != nil {
				fail("bad tag pointer "+ptr, "a tag pointer that cannot be evaluated must make Process fail and forward nothing; got (forwarded=%v, err=%v)", out != nil, err)
			}
			res.Outcome("special bad-tag-pointer")
		}
	}
	// unclassified values that merely look like the filter's own output are still unclassified plaintext
	if cls == "leak" {
		type look struct {
			M map[string]interface{}
			S map[string]string
		}
		for _, prefix := range []string{"encrypted:", "hmac-sha256:", "[REDACTED]"} {
			count()
			in := &look{M: map[string]interface{}{"a": prefix + "CANARYlookA", "b": []byte(prefix + "CANARYlookB")}, S: map[string]string{"c": prefix + "CANARYlookC"}}
			tm := plainTagMap{"d": prefix + "CANARYlookD", "e": map[string]interface{}{"f": prefix + "CANARYlookF"}}
			for name, p := range map[string]interface{}{"struct with untagged maps": in, "Taggable map without tags": tm, "untagged map": map[string]interface{}{"g": prefix + "CANARYlookG"}} {
				out, err := mk().Process(ctx, &el.Event{Type: "t", Payload: p})
				if err == nil && out != nil {
					var sb strings.Builder
					walkStrings(reflect.ValueOf(out.Payload), &sb, 0)
					if strings.Contains(sb.String(), "CANARYlook") {
						fail("filter-output look-alike "+prefix+" in "+name, "an unclassified map value that merely starts with %q was forwarded in clear: %s", prefix, sb.String())
					}
				}
			}
			res.Outcome("special look-alike")
		}
	}
	// with every operation overridden to none the event is forwarded unchanged - whatever its payload is,
	// a payload that has the key-rotation methods included
	if cls == "copy" {
		allNone := map[encrypt.DataClassification]encrypt.FilterOperation{encrypt.PublicClassification: encrypt.NoOperation, encrypt.SensitiveClassification: encrypt.NoOperation, encrypt.SecretClassification: encrypt.NoOperation}
		for _, withW := range []bool{false, true} {
			count()
			rp := &rotPayload{salt: []byte("s2")}
			if withW {
				rp.w = NewWrapper(9)
			}
			f := &encrypt.Filter{Wrapper: base, FilterOperationOverrides: allNone}
			e := &el.Event{Type: "t", Payload: rp}
			out, err := f.Process(ctx, e)
			if err != nil || out != e {
				fail(fmt.Sprintf("all operations none, payload with rotation methods (wrapper=%v)", withW), "with all operations overridden to none the event must be forwarded unchanged (the same event); got (%v, %v)", out, err)
			}
			res.Outcome("special all-none rotation payload")
		}
	}
	// rotation payloads are consumed
	if cls == "leak" {
		for _, subset := range []int{0, 1, 2, 3, 4, 5, 6, 7} {
			count()
			rp := &rotPayload{}
			if subset&1 != 0 {
				rp.w = NewWrapper(9)
			}
			if subset&2 != 0 {
				rp.salt = []byte("s2")
			}
			if subset&4 != 0 {
				rp.info = []byte("i2")
			}
			out, err := mk().Process(ctx, &el.Event{Type: "t", Payload: rp})
			if out != nil || err != nil {
				fail(fmt.Sprintf("rotation payload subset=%d", subset), "key-rotation payloads are consumed, never forwarded: got (%v, %v)", out, err)
			}
			count()
			out, err = mk().Process(ctx, &el.Event{Type: "t", Payload: &rotPayloadWithID{rotPayload: *rp, Secret: "CANARYrot"}})
			if out != nil || err != nil {
				fail(fmt.Sprintf("rotation payload with an EventId subset=%d", subset), "key-rotation payloads are consumed, never forwarded (this one also implements EventWrapperInfo): got (%v, %v)", out, err)
			}
		}
	}
	return res
}
