// Package shapes enumerates payload shapes for encrypt.Filter from an explicit
// grammar (every derivation up to a size bound, no sampling), builds the Go
// types at run time (reflect.StructOf with class tags) and knows, from the
// shape descriptor alone, the fate the documentation dictates for every leaf:
// the reference classifier shares no code with the filter.
package shapes

import (
	"fmt"
	"reflect"
	"strings"

	"github.com/hashicorp/eventlogger/filters/encrypt"
	"google.golang.org/protobuf/types/known/wrapperspb"
)

// Fate of a leaf value.
type Fate int

const (
	Clear Fate = iota
	Redact
	Encrypt
	Hmac
)

func (f Fate) String() string { return [...]string{"clear", "redact", "encrypt", "hmac"}[f] }

// Leaf kinds.
const (
	KStr    = "str"
	KBytes  = "bytes"
	KStrs   = "strs"
	KBytess = "bytess"
	KWStr   = "wstr"
	KWBytes = "wbytes"
	KInt    = "int"
)

var LeafKinds = []string{KStr, KBytes, KStrs, KBytess, KWStr, KWBytes}

// FieldTags are the class tags a struct field can carry.
var FieldTags = []string{"", "public", "sensitive", "secret",
	"sensitive,redact", "sensitive,encrypt", "sensitive,hmac-sha256",
	"secret,redact", "secret,encrypt", "secret,hmac-sha256",
	"classified", "sensitive,rot13", "SENSITIVE", "sensitive,HMAC-SHA256", "public,redact"}

// Node is a shape descriptor.
type Node struct {
	K    string  // leaf kind, or: struct pstruct sstruct spstruct map mapss tmap tstruct stmap sptmap
	Name string  // field name / map key under which the parent holds it
	Tag  string  // class tag if held as a struct field; Taggable key class for tmap/tstruct entries
	Kids []*Node // struct fields or map entries, in order
}

func (n *Node) IsLeaf() bool {
	switch n.K {
	case KStr, KBytes, KStrs, KBytess, KWStr, KWBytes, KInt:
		return true
	}
	return false
}

func (n *Node) String() string {
	s := n.K
	if n.Tag != "" {
		s += "`" + n.Tag + "`"
	}
	if len(n.Kids) > 0 {
		var ks []string
		for _, k := range n.Kids {
			ks = append(ks, k.Name+":"+k.String())
		}
		s += "{" + strings.Join(ks, " ") + "}"
	}
	return s
}

// ---- hand-written Taggable containers (StructOf cannot add methods) --------------

// TMap is a Taggable map: the PointerTags derive from the key names
// "<class>[-<op>]_<name>"; keys starting with "unt" carry no tag.
type TMap map[string]interface{}

func keyTag(k string) (class encrypt.DataClassification, op encrypt.FilterOperation, tagged bool) {
	head := k
	if i := strings.Index(k, "_"); i >= 0 {
		head = k[:i]
	}
	parts := strings.SplitN(head, "-", 2)
	switch parts[0] {
	case "pub":
		class = encrypt.PublicClassification
	case "sec":
		class = encrypt.SecretClassification
	case "sen":
		class = encrypt.SensitiveClassification
	case "unk":
		class = encrypt.DataClassification("confidential") // a classification the library does not know
	case "mix":
		class = encrypt.DataClassification("Secret") // wrong case: not a known classification either
	default:
		return "", "", false
	}
	if len(parts) > 1 {
		switch parts[1] {
		case "r":
			op = encrypt.RedactOperation
		case "e":
			op = encrypt.EncryptOperation
		case "h":
			op = encrypt.HmacSha256Operation
		}
	}
	return class, op, true
}

func (t TMap) Tags() ([]encrypt.PointerTag, error) {
	var out []encrypt.PointerTag
	for k := range t {
		if c, op, ok := keyTag(k); ok {
			out = append(out, encrypt.PointerTag{Pointer: "/" + k, Classification: c, Filter: op})
		}
	}
	return out, nil
}

// TStruct is a Taggable struct: Attrs entries are tagged through pointers
// "/Attrs/<key>", Plain is an ordinary untagged field, Pub a public one.
type TStruct struct {
	Plain string
	Pub   string `class:"public"`
	Sec   []byte `class:"secret"`
	Attrs map[string]interface{}
}

func (t *TStruct) Tags() ([]encrypt.PointerTag, error) {
	var out []encrypt.PointerTag
	for k := range t.Attrs {
		if c, op, ok := keyTag(k); ok {
			out = append(out, encrypt.PointerTag{Pointer: "/Attrs/" + k, Classification: c, Filter: op})
		}
	}
	return out, nil
}

// ---- types -----------------------------------------------------------------------

var (
	tStr    = reflect.TypeOf("")
	tBytes  = reflect.TypeOf([]byte(nil))
	tStrs   = reflect.TypeOf([]string(nil))
	tBytess = reflect.TypeOf([][]byte(nil))
	tWStr   = reflect.TypeOf((*wrapperspb.StringValue)(nil))
	tWBytes = reflect.TypeOf((*wrapperspb.BytesValue)(nil))
	tInt    = reflect.TypeOf(int(0))
	tMap    = reflect.TypeOf(map[string]interface{}(nil))
	tMapSS  = reflect.TypeOf(map[string]string(nil))
	tTMap   = reflect.TypeOf(TMap(nil))
	tTS     = reflect.TypeOf((*TStruct)(nil))
	tSTMap  = reflect.TypeOf([]TMap(nil))
)

func structType(n *Node) reflect.Type {
	fields := make([]reflect.StructField, len(n.Kids))
	for i, k := range n.Kids {
		f := reflect.StructField{Name: k.Name, Type: TypeOf(k)}
		if k.Tag != "" {
			f.Tag = reflect.StructTag(fmt.Sprintf(`class:"%s"`, k.Tag))
		}
		fields[i] = f
	}
	return reflect.StructOf(fields)
}

// TypeOf returns the Go type of a shape.
func TypeOf(n *Node) reflect.Type {
	switch n.K {
	case KStr:
		return tStr
	case KBytes:
		return tBytes
	case KStrs:
		return tStrs
	case KBytess:
		return tBytess
	case KWStr:
		return tWStr
	case KWBytes:
		return tWBytes
	case KInt:
		return tInt
	case "struct":
		return structType(n)
	case "pstruct":
		return reflect.PointerTo(structType(n))
	case "sstruct":
		return reflect.SliceOf(structType(n))
	case "spstruct":
		return reflect.SliceOf(reflect.PointerTo(structType(n)))
	case "map":
		return tMap
	case "mapss":
		return tMapSS
	case "tmap":
		return tTMap
	case "tstruct":
		return tTS
	case "stmap":
		return tSTMap
	case "sptmap":
		return reflect.SliceOf(reflect.PointerTo(tTMap))
	}
	panic("shapes: unknown kind " + n.K)
}

// ---- values, canaries and expected fates -------------------------------------------

// Step is one navigation step from the payload to a leaf.
type Step struct {
	Field string // struct field name
	Key   string // map key
	Index int    // slice index (when Field=="" && Key=="" )
	Deref bool
}

// Canary is one classified leaf value.
type Canary struct {
	Token string
	Bytes bool // the leaf holds []byte
	Path  []Step
	Fate  Fate
	Class string // how the classifier arrived at the fate
}

// Config is what the fate of a leaf depends on besides its tag.
type Config struct {
	Overrides map[encrypt.DataClassification]encrypt.FilterOperation
}

// FateOfTag is the reference classifier: tag string -> fate, from the package
// documentation (sensitive: encrypt; secret and unclassified: redact; public:
// never touched; an operation in the tag wins over the default; a configured
// override wins over the tag; unknown operations fall back to the default;
// unknown / unclassified values are redacted).
func (c Config) FateOfTag(tag string) (Fate, string) {
	if c.AllNone() {
		// C10: with every operation overridden to none the filter is a no-op
		return Clear, "all operations overridden to none"
	}
	segs := strings.Split(tag, ",")
	class := segs[0]
	op := ""
	if len(segs) > 1 {
		op = strings.ToLower(segs[1])
	}
	toFate := func(o encrypt.FilterOperation, dflt Fate) Fate {
		switch o {
		case encrypt.RedactOperation:
			return Redact
		case encrypt.EncryptOperation:
			return Encrypt
		case encrypt.HmacSha256Operation:
			return Hmac
		case encrypt.NoOperation:
			return Clear
		}
		return dflt
	}
	switch encrypt.DataClassification(class) {
	case encrypt.PublicClassification:
		return Clear, "public"
	case encrypt.SensitiveClassification:
		if o, ok := c.Overrides[encrypt.SensitiveClassification]; ok {
			return toFate(o, Encrypt), "sensitive(override)"
		}
		switch op {
		case "redact", "encrypt", "hmac-sha256":
			return toFate(encrypt.FilterOperation(op), Encrypt), "sensitive(tag op)"
		}
		return Encrypt, "sensitive(default)"
	case encrypt.SecretClassification:
		if o, ok := c.Overrides[encrypt.SecretClassification]; ok {
			return toFate(o, Redact), "secret(override)"
		}
		switch op {
		case "redact", "encrypt", "hmac-sha256":
			return toFate(encrypt.FilterOperation(op), Redact), "secret(tag op)"
		}
		return Redact, "secret(default)"
	}
	return Redact, "unclassified"
}

// AllNone reports whether every classification's operation is overridden to none.
func (c Config) AllNone() bool {
	if len(c.Overrides) == 0 {
		return false
	}
	for _, cl := range []encrypt.DataClassification{encrypt.PublicClassification, encrypt.SensitiveClassification, encrypt.SecretClassification} {
		if op, ok := c.Overrides[cl]; !ok || op != encrypt.NoOperation {
			return false
		}
	}
	return true
}

// Built is a constructed payload.
type Built struct {
	Value    reflect.Value
	Canaries []*Canary
	n        int
	cfg      Config
}

func (b *Built) token() string {
	b.n++
	return fmt.Sprintf("CANARY%04dzq", b.n)
}

func (b *Built) leaf(kind string, fate Fate, class string, path []Step) reflect.Value {
	add := func(bytes bool, extra ...Step) string {
		t := b.token()
		p := append(append([]Step(nil), path...), extra...)
		b.Canaries = append(b.Canaries, &Canary{Token: t, Bytes: bytes, Path: p, Fate: fate, Class: class})
		return t
	}
	switch kind {
	case KStr:
		return reflect.ValueOf(add(false))
	case KBytes:
		return reflect.ValueOf([]byte(add(true)))
	case KStrs:
		return reflect.ValueOf([]string{add(false, Step{Index: 0}), add(false, Step{Index: 1})})
	case KBytess:
		return reflect.ValueOf([][]byte{[]byte(add(true, Step{Index: 0})), []byte(add(true, Step{Index: 1}))})
	case KWStr:
		return reflect.ValueOf(wrapperspb.String(add(false, Step{Deref: true}, Step{Field: "Value"})))
	case KWBytes:
		return reflect.ValueOf(wrapperspb.Bytes([]byte(add(true, Step{Deref: true}, Step{Field: "Value"}))))
	case KInt:
		return reflect.ValueOf(42)
	}
	panic("leaf kind")
}

// build constructs the value of n; fate/class describe how a leaf at this
// position is classified (decided by the parent).
func (b *Built) build(n *Node, fate Fate, class string, path []Step) reflect.Value {
	if n.IsLeaf() {
		return b.leaf(n.K, fate, class, path)
	}
	switch n.K {
	case "struct", "pstruct", "sstruct", "spstruct":
		st := structType(n)
		mk := func(p []Step) reflect.Value {
			v := reflect.New(st).Elem()
			for i, k := range n.Kids {
				f, c := b.cfg.FateOfTag(k.Tag)
				if k.Tag == "" {
					f, c = b.unclassified("unclassified")
				}
				v.Field(i).Set(b.build(k, f, c, append(append([]Step(nil), p...), Step{Field: k.Name})))
			}
			return v
		}
		switch n.K {
		case "struct":
			return mk(path)
		case "pstruct":
			v := mk(append(append([]Step(nil), path...), Step{Deref: true}))
			p := reflect.New(st)
			p.Elem().Set(v)
			return p
		case "sstruct":
			s := reflect.MakeSlice(reflect.SliceOf(st), 0, 2)
			for i := 0; i < 2; i++ {
				s = reflect.Append(s, mk(append(append([]Step(nil), path...), Step{Index: i})))
			}
			return s
		default:
			s := reflect.MakeSlice(reflect.SliceOf(reflect.PointerTo(st)), 0, 1)
			v := mk(append(append([]Step(nil), path...), Step{Index: 0}, Step{Deref: true}))
			p := reflect.New(st)
			p.Elem().Set(v)
			return reflect.Append(s, p)
		}
	case "map":
		m := reflect.MakeMap(tMap)
		for _, k := range n.Kids {
			uf, uc := b.unclassified("unclassified(map value)")
			m.SetMapIndex(reflect.ValueOf(k.Name), b.build(k, uf, uc, append(append([]Step(nil), path...), Step{Key: k.Name})))
		}
		return m
	case "mapss":
		m := reflect.MakeMap(tMapSS)
		for _, k := range n.Kids {
			uf, uc := b.unclassified("unclassified(map value)")
			m.SetMapIndex(reflect.ValueOf(k.Name), b.build(k, uf, uc, append(append([]Step(nil), path...), Step{Key: k.Name})))
		}
		return m
	case "tmap":
		return reflect.ValueOf(b.tmap(n, path))
	case "stmap":
		s := []TMap{b.tmap(n, append(append([]Step(nil), path...), Step{Index: 0}))}
		return reflect.ValueOf(s)
	case "sptmap":
		m := b.tmap(n, append(append([]Step(nil), path...), Step{Index: 0}, Step{Deref: true}))
		return reflect.ValueOf([]*TMap{&m})
	case "tstruct":
		ts := &TStruct{Attrs: map[string]interface{}{}}
		p := append(append([]Step(nil), path...), Step{Deref: true})
		pf, pc := b.unclassified("unclassified")
		ts.Plain = b.leaf(KStr, pf, pc, append(append([]Step(nil), p...), Step{Field: "Plain"})).String()
		ts.Pub = b.leaf(KStr, Clear, "public", append(append([]Step(nil), p...), Step{Field: "Pub"})).String()
		sf, sc := b.cfg.FateOfTag("secret")
		ts.Sec = b.leaf(KBytes, sf, sc, append(append([]Step(nil), p...), Step{Field: "Sec"})).Bytes()
		for _, k := range n.Kids {
			f, c := b.keyFate(k.Name)
			ts.Attrs[k.Name] = b.build(k, f, c, append(append([]Step(nil), p...), Step{Field: "Attrs"}, Step{Key: k.Name})).Interface()
		}
		return reflect.ValueOf(ts)
	}
	panic("shapes: build " + n.K)
}

func (b *Built) unclassified(why string) (Fate, string) {
	if b.cfg.AllNone() {
		return Clear, "all operations overridden to none"
	}
	return Redact, why
}

func (b *Built) keyFate(key string) (Fate, string) {
	c, op, ok := keyTag(key)
	if !ok {
		return b.unclassified("unclassified(untagged key of a Taggable)")
	}
	tag := string(c)
	if op != "" {
		tag += "," + string(op)
	}
	f, cl := b.cfg.FateOfTag(tag)
	return f, "taggable:" + cl
}

func (b *Built) tmap(n *Node, path []Step) TMap {
	m := TMap{}
	for _, k := range n.Kids {
		f, c := b.keyFate(k.Name)
		m[k.Name] = b.build(k, f, c, append(append([]Step(nil), path...), Step{Key: k.Name})).Interface()
	}
	return m
}

// Build constructs the payload for shape n under cfg.
func Build(n *Node, cfg Config) *Built {
	b := &Built{cfg: cfg}
	f, c := b.unclassified("unclassified(top level)")
	b.Value = b.build(n, f, c, nil)
	return b
}

// Get navigates v along path; ok=false if the structure no longer has it.
func Get(v reflect.Value, path []Step) (reflect.Value, bool) {
	for _, s := range path {
		for v.IsValid() && v.Kind() == reflect.Interface {
			v = v.Elem()
		}
		if !v.IsValid() {
			return v, false
		}
		switch {
		case s.Deref:
			if v.Kind() != reflect.Ptr || v.IsNil() {
				return v, false
			}
			v = v.Elem()
		case s.Field != "":
			if v.Kind() == reflect.Ptr {
				v = v.Elem()
			}
			if v.Kind() != reflect.Struct {
				return v, false
			}
			v = v.FieldByName(s.Field)
		case s.Key != "":
			if v.Kind() != reflect.Map {
				return v, false
			}
			v = v.MapIndex(reflect.ValueOf(s.Key))
		default:
			if v.Kind() != reflect.Slice || s.Index >= v.Len() {
				return v, false
			}
			v = v.Index(s.Index)
		}
	}
	for v.IsValid() && v.Kind() == reflect.Interface {
		v = v.Elem()
	}
	return v, v.IsValid()
}
