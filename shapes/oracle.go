package shapes

import (
	"bytes"
	"context"
	"crypto/hmac"
	"crypto/sha256"
	"encoding/base64"
	"encoding/json"
	"fmt"
	"io"
	"reflect"
	"sort"
	"strings"

	el "github.com/hashicorp/eventlogger"
	"github.com/hashicorp/eventlogger/filters/encrypt"
	wrapping "github.com/hashicorp/go-kms-wrapping/v2"
	"github.com/hashicorp/go-kms-wrapping/v2/aead"
	"golang.org/x/crypto/hkdf"
	"google.golang.org/protobuf/proto"
)

// NewWrapper builds an AEAD wrapper with a deterministic key.
func NewWrapper(seed byte) *aead.Wrapper {
	key := bytes.Repeat([]byte{seed}, 32)
	w := aead.NewWrapper()
	if _, err := w.SetConfig(context.Background(), wrapping.WithKeyId(fmt.Sprintf("key-%d", seed))); err != nil {
		panic(err)
	}
	if err := w.SetAesGcmKeyBytes(key); err != nil {
		panic(err)
	}
	return w
}

// FailingWrapper encrypts with the embedded wrapper but fails at the k-th call.
type FailingWrapper struct {
	*aead.Wrapper
	FailAt int
	Calls  int
	Failed bool // the failing call has happened
}

// KeyBytes is what the HMAC path asks the wrapper for: it counts (and fails) like Encrypt.
func (f *FailingWrapper) KeyBytes(ctx context.Context) ([]byte, error) {
	f.Calls++
	if f.Calls == f.FailAt {
		f.Failed = true
		return nil, ErrWrapper
	}
	return f.Wrapper.KeyBytes(ctx)
}

var ErrWrapper = fmt.Errorf("harness: wrapper fails at this call")

func (f *FailingWrapper) Encrypt(ctx context.Context, pt []byte, opt ...wrapping.Option) (*wrapping.BlobInfo, error) {
	f.Calls++
	if f.Calls == f.FailAt {
		f.Failed = true
		return nil, ErrWrapper
	}
	return f.Wrapper.Encrypt(ctx, pt, opt...)
}

// Decrypt decodes an "encrypted:" value independently of the filter.
func Decrypt(w wrapping.Wrapper, val string) ([]byte, error) {
	if !strings.HasPrefix(val, "encrypted:") {
		return nil, fmt.Errorf("missing encrypted: prefix")
	}
	raw, err := base64.RawURLEncoding.DecodeString(strings.TrimPrefix(val, "encrypted:"))
	if err != nil {
		return nil, err
	}
	blob := new(wrapping.BlobInfo)
	if err := proto.Unmarshal(raw, blob); err != nil {
		return nil, err
	}
	pt, err := w.Decrypt(context.Background(), blob, nil)
	if err != nil {
		return nil, err
	}
	return pt, nil
}

// HmacOf recomputes the digest with x/crypto hkdf + crypto/hmac.
func HmacOf(key []byte, salt, info, data []byte) string {
	r := hkdf.New(sha256.New, key, salt, info)
	k := make([]byte, 32)
	if _, err := io.ReadFull(r, k); err != nil {
		panic(err)
	}
	m := hmac.New(sha256.New, k)
	m.Write(data)
	return "hmac-sha256:" + base64.RawURLEncoding.EncodeToString(m.Sum(nil))
}

// Problem is one oracle finding, labelled with the property it concerns.
type Problem struct {
	Class string // leak | copy | crypto
	Text  string
}

func leafString(v reflect.Value) (string, bool) {
	switch {
	case v.Kind() == reflect.String:
		return v.String(), true
	case v.Kind() == reflect.Slice && v.Type().Elem().Kind() == reflect.Uint8:
		return string(v.Bytes()), true
	case v.Kind() == reflect.Ptr && !v.IsNil() && v.Elem().Kind() == reflect.String:
		return v.Elem().String(), true
	}
	return "", false
}

// Key material in force for the output check.
type KeyCtx struct {
	Wrapper  wrapping.Wrapper // to decrypt with
	KeyBytes []byte           // for hmac
	Salt     []byte
	Info     []byte
}

// CheckOutput compares the filter's output payload with the expectation the
// descriptor dictates.
func CheckOutput(b *Built, out interface{}, kc KeyCtx) []Problem {
	var ps []Problem
	ov := reflect.ValueOf(out)
	if ov.Type() != b.Value.Type() {
		ps = append(ps, Problem{"copy", fmt.Sprintf("output payload has dynamic type %s, input %s", ov.Type(), b.Value.Type())})
		return ps
	}
	js, jerr := json.Marshal(out)
	var walked strings.Builder
	walkStrings(ov, &walked, 0)
	hay := string(js) + "\n" + walked.String()
	if jerr != nil {
		hay = walked.String()
	}
	for _, c := range b.Canaries {
		v, ok := Get(ov, c.Path)
		if !ok {
			ps = append(ps, Problem{"copy", fmt.Sprintf("leaf at %v is missing from the output (shape not preserved)", c.Path)})
			continue
		}
		got, isStr := leafString(v)
		if c.Fate != Clear {
			forms := []string{c.Token, base64.StdEncoding.EncodeToString([]byte(c.Token)), base64.RawURLEncoding.EncodeToString([]byte(c.Token)), base64.URLEncoding.EncodeToString([]byte(c.Token))}
			for _, f := range forms {
				if strings.Contains(hay, f) {
					ps = append(ps, Problem{"leak", fmt.Sprintf("protected value (%s, expected %s) at %v is readable in the forwarded event (found %q)", c.Class, c.Fate, pathString(c.Path), f)})
					break
				}
			}
		}
		if !isStr {
			ps = append(ps, Problem{"copy", fmt.Sprintf("leaf at %v changed kind to %s", pathString(c.Path), v.Kind())})
			continue
		}
		switch c.Fate {
		case Clear:
			if got != c.Token {
				cls := "copy"
				if got == encrypt.RedactedData && strings.HasPrefix(c.Class, "taggable:") && b.Value.Kind() == reflect.Struct {
					// a public key of a Taggable inside a payload passed as a struct by value (not settable, see
					// finding S13): the filter sweeps the Taggable like an untagged map. Counted, not judged here.
					cls = "over-redaction"
				}
				ps = append(ps, Problem{cls, fmt.Sprintf("public value at %v was altered to %q", pathString(c.Path), trunc(got, 40))})
			}
		case Redact:
			if got != encrypt.RedactedData {
				ps = append(ps, Problem{"leak", fmt.Sprintf("value (%s) at %v should be redacted, output holds %q", c.Class, pathString(c.Path), trunc(got, 40))})
			}
		case Encrypt:
			if got == encrypt.RedactedData {
				ps = append(ps, Problem{"over-redaction", fmt.Sprintf("value (%s) at %v was redacted where encryption was dictated", c.Class, pathString(c.Path))})
				continue
			}
			pt, err := Decrypt(kc.Wrapper, got)
			if err != nil {
				cls := "crypto"
				if got == c.Token {
					cls = "leak" // untouched plaintext: a leak (C09), not a wrongly encrypted value
				}
				ps = append(ps, Problem{cls, fmt.Sprintf("value (%s) at %v should be encrypted under the wrapper in force: %q: %v", c.Class, pathString(c.Path), trunc(got, 40), err)})
			} else if string(pt) != c.Token {
				ps = append(ps, Problem{"crypto", fmt.Sprintf("value at %v decrypts to %q, original %q", pathString(c.Path), pt, c.Token)})
			}
		case Hmac:
			if got == encrypt.RedactedData {
				ps = append(ps, Problem{"over-redaction", fmt.Sprintf("value (%s) at %v was redacted where HMAC was dictated", c.Class, pathString(c.Path))})
				continue
			}
			want := HmacOf(kc.KeyBytes, kc.Salt, kc.Info, []byte(c.Token))
			if got != want {
				cls := "crypto"
				if got == c.Token {
					cls = "leak" // untouched plaintext: a leak (C09), not a wrong digest
				}
				ps = append(ps, Problem{cls, fmt.Sprintf("value (%s) at %v should be HMAC-SHA256 under the key/salt/info in force: got %q want %q", c.Class, pathString(c.Path), trunc(got, 60), want)})
			}
		}
	}
	return ps
}

func pathString(p []Step) string {
	var sb strings.Builder
	for _, s := range p {
		switch {
		case s.Deref:
			sb.WriteString("*")
		case s.Field != "":
			sb.WriteString("." + s.Field)
		case s.Key != "":
			sb.WriteString("[" + s.Key + "]")
		default:
			fmt.Fprintf(&sb, "[%d]", s.Index)
		}
	}
	return sb.String()
}

func trunc(s string, n int) string {
	if len(s) > n {
		return s[:n] + "…"
	}
	return s
}

// walkStrings appends every string / []byte reachable through exported fields,
// map values, slices, pointers and interfaces.
func walkStrings(v reflect.Value, sb *strings.Builder, depth int) {
	if depth > 12 || !v.IsValid() {
		return
	}
	switch v.Kind() {
	case reflect.String:
		sb.WriteString(v.String() + "\n")
	case reflect.Slice:
		if v.Type().Elem().Kind() == reflect.Uint8 {
			sb.WriteString(string(v.Bytes()) + "\n")
			return
		}
		for i := 0; i < v.Len(); i++ {
			walkStrings(v.Index(i), sb, depth+1)
		}
	case reflect.Ptr, reflect.Interface:
		if !v.IsNil() {
			walkStrings(v.Elem(), sb, depth+1)
		}
	case reflect.Struct:
		for i := 0; i < v.NumField(); i++ {
			if v.Type().Field(i).PkgPath == "" {
				walkStrings(v.Field(i), sb, depth+1)
			}
		}
	case reflect.Map:
		for _, k := range v.MapKeys() {
			walkStrings(v.MapIndex(k), sb, depth+1)
		}
	}
}

// Case is one run of the filter on one shape.
type Case struct {
	CancelledCtx bool // Process is called with an already cancelled context
	Shape        *Node
	Overrides    map[encrypt.DataClassification]encrypt.FilterOperation
	Wrapper      string // present | absent | fail@k
	FailAt       int
}

// Result of one case.
type Result struct {
	Out      *el.Event
	Err      error
	In       *el.Event
	Built    *Built
	Twin     *Built
	Problems []Problem
	NeedsKey int // number of leaves whose fate needs the wrapper
}

// Run executes the filter on the case's payload and evaluates all oracles.
func Run(c Case) *Result { return RunOn(nil, c) }

// RunOn is Run on an existing filter instance (histories on one filter); the
// case's overrides are installed on it first.
func RunOn(reuse *encrypt.Filter, c Case) *Result {
	cfg := Config{Overrides: c.Overrides}
	b := Build(c.Shape, cfg)
	twin := Build(c.Shape, cfg)
	base := NewWrapper(7)
	f := &encrypt.Filter{FilterOperationOverrides: c.Overrides, HmacSalt: []byte("salt-f"), HmacInfo: []byte("info-f")}
	if reuse != nil {
		f = reuse
		f.FilterOperationOverrides = c.Overrides
		f.HmacSalt, f.HmacInfo = []byte("salt-f"), []byte("info-f")
	}
	var fw *FailingWrapper
	switch c.Wrapper {
	case "keep":
	case "present":
		f.Wrapper = base
	case "fail":
		fw = &FailingWrapper{Wrapper: base, FailAt: c.FailAt}
		f.Wrapper = fw
	}
	in := &el.Event{Type: "t", Formatted: map[string][]byte{}, Payload: b.Value.Interface()}
	r := &Result{In: in, Built: b, Twin: twin}
	for _, cn := range b.Canaries {
		if cn.Fate == Encrypt || cn.Fate == Hmac {
			r.NeedsKey++
		}
	}
	func() {
		defer func() {
			if p := recover(); p != nil {
				r.Err = fmt.Errorf("PANIC: %v", p)
				r.Problems = append(r.Problems, Problem{"leak", fmt.Sprintf("the filter panicked: %v", p)})
			}
		}()
		ctx := context.Background()
		if c.CancelledCtx {
			cc, cancel := context.WithCancel(ctx)
			cancel()
			ctx = cc
		}
		r.Out, r.Err = f.Process(ctx, in)
	}()
	// C10: the input is untouched
	if !reflect.DeepEqual(in.Payload, twin.Value.Interface()) {
		r.Problems = append(r.Problems, Problem{"copy", "Process modified the payload it was given (input differs from a pristine twin built from the same descriptor)"})
	}
	if r.Err != nil {
		if r.Out != nil {
			r.Problems = append(r.Problems, Problem{"leak", "Process returned an error AND an event"})
		}
		return r
	}
	// fails closed: a wrapper call that failed is a failed step - an error, nothing forwarded
	if fw != nil && fw.Failed {
		r.Problems = append(r.Problems, Problem{"leak", fmt.Sprintf("the wrapper failed (its call #%d) while the event was being filtered, yet Process returned no error (forwarded=%v): a failing step must fail the event, not degrade it", fw.FailAt, r.Out != nil)})
	}
	if r.Out == nil {
		return r
	}
	// C10: the forwarded event must not share its format table with the original
	if r.Out != in {
		r.Out.FormattedAs("verif-probe", []byte("x"))
		if _, aliased := in.Format("verif-probe"); aliased {
			r.Problems = append(r.Problems, Problem{"copy", "the forwarded event shares its Formatted table with the event Process was given: formatting the copy downstream modifies the original"})
		}
	}
	// C10: same dynamic type and shape - every value held in an interface (map values, interface
	// fields) keeps its concrete type, containers keep their lengths and keys, pointers stay pointers
	if a, o := skeleton(reflect.ValueOf(twin.Value.Interface()), 0), skeleton(reflect.ValueOf(r.Out.Payload), 0); a != o {
		r.Problems = append(r.Problems, Problem{"copy", fmt.Sprintf("the forwarded payload does not have the input's dynamic types / shape: input %s, output %s", trunc(a, 300), trunc(o, 300))})
	}
	kb, _ := base.KeyBytes(context.Background())
	r.Problems = append(r.Problems, CheckOutput(b, r.Out.Payload, KeyCtx{Wrapper: base, KeyBytes: kb, Salt: []byte("salt-f"), Info: []byte("info-f")})...)
	return r
}

// skeleton renders the dynamic type structure of a value: concrete types behind interfaces, container
// lengths, map keys (sorted), nil-ness of pointers - everything about a payload except leaf contents.
func skeleton(v reflect.Value, depth int) string {
	if !v.IsValid() {
		return "<invalid>"
	}
	if depth > 12 {
		return "..."
	}
	switch v.Kind() {
	case reflect.Interface:
		if v.IsNil() {
			return "iface(nil)"
		}
		return "iface(" + skeleton(v.Elem(), depth+1) + ")"
	case reflect.Ptr:
		if v.IsNil() {
			return "*" + v.Type().Elem().String() + "(nil)"
		}
		if _, isMsg := v.Interface().(proto.Message); isMsg {
			return v.Type().String()
		}
		return "*" + skeleton(v.Elem(), depth+1)
	case reflect.Struct:
		parts := []string{}
		for i := 0; i < v.NumField(); i++ {
			if v.Type().Field(i).PkgPath != "" {
				continue
			}
			parts = append(parts, v.Type().Field(i).Name+":"+skeleton(v.Field(i), depth+1))
		}
		return v.Type().String() + "{" + strings.Join(parts, ",") + "}"
	case reflect.Map:
		if v.IsNil() {
			return v.Type().String() + "(nil)"
		}
		keys := []string{}
		for _, k := range v.MapKeys() {
			keys = append(keys, fmt.Sprint(k.Interface())+":"+skeleton(v.MapIndex(k), depth+1))
		}
		sort.Strings(keys)
		return v.Type().String() + "{" + strings.Join(keys, ",") + "}"
	case reflect.Slice:
		if v.IsNil() {
			return v.Type().String() + "(nil)"
		}
		if v.Type().Elem().Kind() == reflect.Uint8 {
			return "leaf" // string-like leaves are what the filter rewrites; their contents and whether a protected []byte comes back as text are judged per leaf, not here
		}
		parts := []string{}
		for i := 0; i < v.Len(); i++ {
			parts = append(parts, skeleton(v.Index(i), depth+1))
		}
		return v.Type().String() + "[" + strings.Join(parts, ",") + "]"
	}
	if v.Kind() == reflect.String {
		return "leaf"
	}
	return v.Type().String()
}
