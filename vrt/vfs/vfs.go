// Package vfs wraps the file-system calls of the instrumented library sources
// (pass-through to the real calls) so a harness can observe the directory
// between any two of them: those are exactly the states a SIGKILL can leave
// behind, because every effect of FileSink is one system call.
package vfs

import (
	"io/fs"
	"os"
	"path/filepath"
)

// Hook, when set by a harness, is called after every wrapped call.
var Hook func(op string, path string)

//go:norace
func hook(op, path string) {
	if h := Hook; h != nil {
		h(op, path)
	}
}

func MkdirAll(path string, perm os.FileMode) error {
	err := os.MkdirAll(path, perm)
	hook("mkdirall", path)
	return err
}

func OpenFile(name string, flag int, perm os.FileMode) (*os.File, error) {
	f, err := os.OpenFile(name, flag, perm)
	hook("openfile", name)
	return f, err
}

func Chmod(name string, mode os.FileMode) error {
	err := os.Chmod(name, mode)
	hook("chmod", name)
	return err
}

func Rename(oldpath, newpath string) error {
	err := os.Rename(oldpath, newpath)
	hook("rename", newpath)
	return err
}

func Remove(name string) error {
	err := os.Remove(name)
	hook("remove", name)
	return err
}

func Stat(name string) (fs.FileInfo, error) { return os.Stat(name) }

func Glob(pattern string) ([]string, error) { return filepath.Glob(pattern) }
