package vrt

import (
	"fmt"
	"reflect"
	"runtime"
	"unsafe"
)

const chanBuf = 32

// chanModel is the scheduler's model of one Go channel, keyed by the real
// channel's address. Values never travel through the real channel while an
// execution is controlled: the model carries them (boxed), so blocking,
// buffering, rendezvous and close are all visible to the scheduler.
type chanModel struct {
	key    unsafe.Pointer
	cap    int
	buf    [chanBuf]any
	slotTk [chanBuf]int // token released by the sender of the value in this slot
	head   int
	n      int
	closed bool
	closeT int           // token released by the closer
	ext    reflect.Value // the real channel, polled for closes done outside (ctx.Done())
	hasExt bool
}

//go:norace
func (s *sched) chanFor(key unsafe.Pointer, capacity int, rv reflect.Value) *chanModel {
	for i := 0; i < s.nchans; i++ {
		if s.chans[i].key == key {
			c := &s.chans[i]
			if c.hasExt && c.ext.Type().ChanDir()&reflect.RecvDir == 0 && rv.Type().ChanDir()&reflect.RecvDir != 0 {
				c.ext = rv
			}
			return c
		}
	}
	if s.nchans >= MaxChans {
		s.setVerdict(VHorizon, "channel cap reached")
		return &s.chans[MaxChans-1]
	}
	c := &s.chans[s.nchans]
	s.nchans++
	*c = chanModel{key: key, cap: capacity, ext: rv, hasExt: true}
	if capacity > chanBuf {
		c.cap = chanBuf
	}
	return c
}

// pollExt looks at the real channel for a close (or a value) produced by
// uncontrolled code such as context cancellation.
//
//go:norace
func (c *chanModel) pollExt() {
	if !c.hasExt || c.closed {
		return
	}
	if c.ext.Type().ChanDir()&reflect.RecvDir == 0 {
		return
	}
	for c.n < chanBuf {
		x, ok := c.ext.TryRecv()
		if !x.IsValid() {
			return // would block
		}
		if !ok {
			c.closed = true
			c.closeT = 0
			return
		}
		i := (c.head + c.n) % chanBuf
		c.buf[i] = x.Interface()
		c.slotTk[i] = 0
		c.n++
	}
}

//go:norace
func (c *chanModel) recvReady() bool {
	if c.n > 0 || c.closed {
		return true
	}
	c.pollExt()
	return c.n > 0 || c.closed
}

// pendingReceiver finds a thread other than t blocked in a receive (plain or a
// select arm) on c.
//
//go:norace
func (c *chanModel) pendingReceiver(t *Thread) (*Thread, int) {
	for i := 0; i < S.nthreads; i++ {
		o := &S.threads[i]
		if o == t || o.state != tsLive || o.done {
			continue
		}
		if o.op == OpRecv && o.ch == c {
			return o, -1
		}
		if o.op == OpSelect {
			for k := range o.cases {
				if !o.cases[k].send && o.cases[k].ch == c {
					return o, k
				}
			}
		}
	}
	return nil, 0
}

//go:norace
func (c *chanModel) sendReady(t *Thread) bool {
	if c.closed {
		return true // will be reported as misuse (panic: send on closed channel)
	}
	if c.n < c.cap {
		return true
	}
	if c.cap == 0 {
		r, _ := c.pendingReceiver(t)
		return r != nil
	}
	return false
}

// doSend performs t's send of v on c (t has been granted).
//
//go:norace
func (c *chanModel) doSend(t *Thread, v any) {
	if c.closed {
		Misuse("send on closed channel")
	}
	if c.cap == 0 {
		r, arm := c.pendingReceiver(t)
		if r == nil {
			S.setVerdict(VMisuse, "internal: unbuffered send granted without receiver")
			return
		}
		r.done, r.arm, r.recvV, r.recvOK = true, arm, v, true
		r.ptok = t.tok
		t.ptok = r.tok
		return
	}
	i := (c.head + c.n) % chanBuf
	c.buf[i] = v
	c.slotTk[i] = t.tok
	c.n++
	t.ptok = -1
}

//go:norace
func (c *chanModel) doRecv(t *Thread) (any, bool) {
	if c.n > 0 {
		v := c.buf[c.head]
		t.ptok = c.slotTk[c.head]
		c.buf[c.head] = nil
		c.head = (c.head + 1) % chanBuf
		c.n--
		return v, true
	}
	if c.closed {
		t.ptok = c.closeT
		return nil, false
	}
	S.setVerdict(VMisuse, "internal: receive granted on empty open channel")
	return nil, false
}

//go:norace
func chanKey[T any](ch chan T) unsafe.Pointer {
	return *(*unsafe.Pointer)(unsafe.Pointer(&ch))
}

// SelCase is one arm of a rewritten select statement.
type SelCase struct {
	ch   *chanModel
	send bool
	v    any
	nilC bool
}

// Case is the typed handle the instrumented code keeps per select arm.
type Case[T any] struct {
	c  SelCase
	V  T
	OK bool
}

// CaseHandle lets Select treat differently typed arms uniformly.
type CaseHandle interface {
	selCase() *SelCase
	deliver(v any, ok bool)
}

func (c *Case[T]) selCase() *SelCase { return &c.c }

//go:norace
func (c *Case[T]) deliver(v any, ok bool) {
	c.OK = ok
	if v != nil {
		c.V = v.(T)
	}
}

//go:norace
func acquireTok(i int) {
	if i > 0 {
		RaceAcquire(tokPtr(i))
	}
}

// announce releases a fresh token so that a partner completing this operation
// can acquire everything that happened before it. Race events enabled.
//
//go:norace
func announce() int {
	if !S.active {
		return 0
	}
	k := S.newToken()
	RaceRelease(tokPtr(k))
	return k
}

// Send is `ch <- v`.
//
//go:norace
func Send[T any](ch chan<- T, v T) {
	if !S.active {
		ch <- v
		return
	}
	tk := announce()
	t := Enter()
	if S.aborting {
		Leave()
		return
	}
	if ch == nil {
		blockForever(t, "send on nil channel")
	}
	key := *(*unsafe.Pointer)(unsafe.Pointer(&ch))
	c := S.chanFor(key, cap(ch), reflect.ValueOf(ch))
	t.op, t.ch, t.w, t.wobj, t.done, t.label, t.tok, t.ptok = OpSend, c, nil, key, false, "", tk, -1
	if !S.yield(t) {
		S.noteStack(t)
		Leave()
		runtime.Goexit()
	}
	c.doSend(t, any(v))
	t.op, t.ch = OpNone, nil
	p := t.ptok
	Leave()
	acquireTok(p)
}

//go:norace
func blockForever(t *Thread, what string) {
	t.op, t.w, t.wobj, t.done, t.label = OpCond, nil, nil, false, what
	t.cond = neverReady
	S.yield(t)
	S.noteStack(t)
	Leave()
	runtime.Goexit()
}

//go:norace
func neverReady() bool { return false }

//go:norace
func recvCore[T any](ch <-chan T) (T, bool) {
	var zero T
	tk := announce()
	t := Enter()
	if S.aborting {
		Leave()
		return zero, false
	}
	if ch == nil {
		blockForever(t, "receive on nil channel")
	}
	key := *(*unsafe.Pointer)(unsafe.Pointer(&ch))
	c := S.chanFor(key, cap(ch), reflect.ValueOf(ch))
	t.op, t.ch, t.w, t.wobj, t.done, t.label, t.tok, t.ptok = OpRecv, c, nil, key, false, "", tk, -1
	if !S.yield(t) {
		S.noteStack(t)
		Leave()
		runtime.Goexit()
	}
	var v any
	var ok bool
	if t.done {
		v, ok = t.recvV, t.recvOK
		t.recvV = nil
	} else {
		v, ok = c.doRecv(t)
	}
	closedExt := !ok && c.hasExt && c.closeT == 0
	t.op, t.ch, t.done = OpNone, nil, false
	p := t.ptok
	Leave()
	acquireTok(p)
	if closedExt {
		// closed by uncontrolled code (context cancellation): take the real
		// happens-before edge of the real close with a real receive.
		select {
		case <-ch:
		default:
		}
	}
	if v == nil {
		return zero, ok
	}
	return v.(T), ok
}

// Recv is `<-ch`.
//
//go:norace
func Recv[T any](ch <-chan T) T {
	if !S.active {
		return <-ch
	}
	v, _ := recvCore(ch)
	return v
}

// Recv2 is `v, ok := <-ch`.
//
//go:norace
func Recv2[T any](ch <-chan T) (T, bool) {
	if !S.active {
		v, ok := <-ch
		return v, ok
	}
	return recvCore(ch)
}

// Close is `close(ch)`.
//
//go:norace
func Close[T any](ch chan<- T) {
	if !S.active {
		close(ch)
		return
	}
	tk := announce()
	t := Enter()
	if S.aborting {
		Leave()
		return
	}
	if ch == nil {
		Misuse("close of nil channel")
	}
	key := *(*unsafe.Pointer)(unsafe.Pointer(&ch))
	c := S.chanFor(key, cap(ch), reflect.ValueOf(ch))
	t.op, t.ch, t.w, t.wobj, t.done, t.label, t.tok = OpClose, c, nil, key, false, "", tk
	if !S.yield(t) {
		S.noteStack(t)
		Leave()
		runtime.Goexit()
	}
	if c.closed {
		Misuse("close of closed channel")
	}
	c.closed = true
	c.closeT = tk
	t.op, t.ch = OpNone, nil
	Leave()
}

// CaseRecv builds a receive arm.
//
//go:norace
func CaseRecv[T any](ch <-chan T) *Case[T] {
	k := &Case[T]{}
	if !S.active {
		k.c.v = ch
		return k
	}
	if ch == nil {
		k.c.nilC = true
		return k
	}
	t := Enter()
	key := *(*unsafe.Pointer)(unsafe.Pointer(&ch))
	k.c.ch = S.chanFor(key, cap(ch), reflect.ValueOf(ch))
	_ = t
	Leave()
	return k
}

// CaseSend builds a send arm.
//
//go:norace
func CaseSend[T any](ch chan<- T, v T) *Case[T] {
	k := &Case[T]{}
	k.c.send = true
	if !S.active {
		k.c.v = ch
		k.V = v
		return k
	}
	if ch == nil {
		k.c.nilC = true
		return k
	}
	Enter()
	key := *(*unsafe.Pointer)(unsafe.Pointer(&ch))
	k.c.ch = S.chanFor(key, cap(ch), reflect.ValueOf(ch))
	k.c.v = any(v)
	Leave()
	return k
}

//go:norace
func (s *sched) caseReady(t *Thread, k *SelCase) bool {
	if k.nilC {
		return false
	}
	if k.send {
		return k.ch.sendReady(t)
	}
	return k.ch.recvReady()
}

// Select is the rewritten select statement: it returns the index of the arm
// taken, or -1 for default. Which of several ready arms fires is an explored
// choice.
//
//go:norace
func Select(hasDefault bool, hs ...CaseHandle) int {
	if !S.active {
		return selectReal(hasDefault, hs)
	}
	tk := announce()
	t := Enter()
	if S.aborting {
		Leave()
		return -1
	}
	cases := make([]SelCase, len(hs))
	for i, h := range hs {
		cases[i] = *h.selCase()
	}
	t.op, t.cases, t.hasDef, t.w, t.wobj, t.done, t.label, t.tok, t.ptok = OpSelect, cases, hasDefault, nil, nil, false, "", tk, -1
	if !S.yield(t) {
		S.noteStack(t)
		Leave()
		runtime.Goexit()
	}
	arm := -1
	if t.done {
		arm = t.arm
		hs[arm].deliver(t.recvV, t.recvOK)
		t.recvV = nil
	} else {
		var ready [16]int
		n := 0
		for i := range cases {
			if n < len(ready) && S.caseReady(t, &cases[i]) {
				ready[n] = i
				n++
			}
		}
		if n > 0 {
			c := 0
			if n > 1 {
				c = S.nextChoice(n, 1, false, uint32(n)*40503)
			}
			arm = ready[c]
			k := &cases[arm]
			if k.send {
				k.ch.doSend(t, k.v)
			} else {
				v, ok := k.ch.doRecv(t)
				hs[arm].deliver(v, ok)
				if !ok && k.ch.hasExt && k.ch.closeT == 0 {
					defer realPoll(k.ch.ext)
				}
			}
		} else if !hasDefault {
			S.setVerdict(VMisuse, "internal: select granted with no ready arm")
		}
	}
	S.mix(uint64(0x5E)<<48 | uint64(arm+1))
	t.op, t.cases, t.done = OpNone, nil, false
	p := t.ptok
	Leave()
	acquireTok(p)
	return arm
}

// realPoll performs a real non-blocking receive on a channel closed by
// uncontrolled code so the race detector sees the real close->receive edge.
func realPoll(rv reflect.Value) {
	rv.TryRecv()
}

func selectReal(hasDefault bool, hs []CaseHandle) int {
	cs := make([]reflect.SelectCase, 0, len(hs)+1)
	for _, h := range hs {
		k := h.selCase()
		if k.send {
			cs = append(cs, reflect.SelectCase{Dir: reflect.SelectSend, Chan: reflect.ValueOf(k.v), Send: sendVal(h)})
		} else {
			cs = append(cs, reflect.SelectCase{Dir: reflect.SelectRecv, Chan: reflect.ValueOf(k.v)})
		}
	}
	if hasDefault {
		cs = append(cs, reflect.SelectCase{Dir: reflect.SelectDefault})
	}
	i, v, ok := reflect.Select(cs)
	if hasDefault && i == len(hs) {
		return -1
	}
	if !hs[i].selCase().send {
		if v.IsValid() && ok {
			hs[i].deliver(v.Interface(), ok)
		} else {
			hs[i].deliver(nil, ok)
		}
	}
	return i
}

func sendVal(h CaseHandle) reflect.Value {
	return reflect.ValueOf(h).Elem().FieldByName("V")
}

// ---- virtual clock and timers ------------------------------------------------

type timer struct {
	at      int64
	ch      *chanModel
	fired   bool
	stopped bool
	val     func(int64) any
}

// ClockNow returns the virtual time (ns) and ticks it by 1ns, so successive
// reads are strictly increasing like a real monotonic clock.
//
//go:norace
func ClockNow() (int64, bool) {
	if !S.active || !S.clockOn {
		return 0, false
	}
	S.clock++
	return S.clock, true
}

// AdvanceClock moves the virtual clock forward and fires due timers. It is a
// scheduling point (an environment step).
//
//go:norace
func AdvanceClock(d int64) {
	Point("clock+")
	t := Enter()
	if t == nil {
		return
	}
	S.clock += d
	for i := 0; i < S.ntimers; i++ {
		tm := &S.timers[i]
		if !tm.fired && !tm.stopped && tm.at <= S.clock {
			tm.fired = true
			c := tm.ch
			if c.n < c.cap {
				j := (c.head + c.n) % chanBuf
				c.buf[j] = tm.val(S.clock)
				c.slotTk[j] = 0
				c.n++
			}
		}
	}
	Leave()
}

// SetClock sets the virtual clock without a scheduling point (harness setup).
//
//go:norace
func SetClock(ns int64) { S.clock = ns }

// StopTimer disarms modelled timer id (as time.Timer.Stop); it reports whether
// the timer was still pending.
//
//go:norace
func StopTimer(id int) bool {
	if !S.active || id < 0 || id >= S.ntimers {
		return false
	}
	tm := &S.timers[id]
	was := !tm.fired && !tm.stopped
	tm.stopped = true
	return was
}

// ResetTimer re-arms modelled timer id to fire d from now on the same channel.
//
//go:norace
func ResetTimer(id int, d int64) bool {
	if !S.active || id < 0 || id >= S.ntimers {
		return false
	}
	tm := &S.timers[id]
	was := !tm.fired && !tm.stopped
	tm.fired, tm.stopped, tm.at = false, false, S.clock+d
	return was
}

// NewTimerChan registers a modelled timer on the real channel ch (cap 1) and
// returns its id (-1 outside a controlled execution).
//
//go:norace
func NewTimerChan[T any](ch chan T, d int64, mk func(int64) any) int {
	t := Enter()
	if t == nil {
		return -1
	}
	id := -1
	key := chanKey(ch)
	c := S.chanFor(key, cap(ch), reflect.ValueOf(ch))
	c.hasExt = false
	if S.ntimers < len(S.timers) {
		S.timers[S.ntimers] = timer{at: S.clock + d, ch: c, val: mk}
		id = S.ntimers
		S.ntimers++
	} else {
		S.setVerdict(VHorizon, "timer cap reached")
	}
	Leave()
	return id
}

// PendingTimers returns how many modelled timers have not fired yet.
//
//go:norace
func PendingTimers() int {
	n := 0
	for i := 0; i < S.ntimers; i++ {
		if !S.timers[i].fired && !S.timers[i].stopped {
			n++
		}
	}
	return n
}

var _ = fmt.Sprint
