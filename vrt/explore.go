package vrt

import (
	"fmt"
	"time"
)

// Violation is a property violation found on one execution.
type Violation struct {
	Kind    string   `json:"kind"`   // deadlock | panic | race | misuse | horizon | fail | oracle
	Detail  string   `json:"detail"` // human readable, also what known-finding signatures match on
	Choices []int    `json:"choices"`
	Stacks  []string `json:"stacks,omitempty"`
}

// Explorer is the stateless depth-first search over the scheduler's choices
// with iterative preemption bounding (the bound applies to thread switches
// away from a still-enabled thread; select-arm, permutation and environment
// choices are free).
type Explorer struct {
	Bound int // max preemptions per execution; <0 = unbounded
	// FreeBound, when > 0, additionally bounds the number of non-default
	// choices among enabled threads at points where the running thread blocked
	// or exited (switches that cost no preemption). 0 = unlimited.
	FreeBound int
	Permute   bool
	Clock     int64
	StepCap   int
	// Body runs as thread 0 of every execution and returns an outcome
	// signature (what the harness observed), used to count distinct outcomes.
	Body func() string
	// Oracle is evaluated by the driver after each completed (non-aborted)
	// execution; it returns "" or a violation description.
	Oracle func(x *Exec, outcome string) string
	// RaceDetail is called when the race detector reported during an
	// execution; it should return the normalised report text.
	RaceDetail func() string
	// OnViolation decides whether exploration continues (true) after v.
	OnViolation func(v *Violation) bool

	Deadline time.Time
	MaxExecs int
	// JobBudget > 0: once this many executions have run, subtrees not yet entered are not explored by
	// this call but appended to Deferred (as prefixes) for the caller to schedule as jobs of their own.
	// Nothing is dropped: it bounds the size (and memory) of one job, not the search.
	JobBudget int
	Deferred  [][]int
	// RootSig != 0: hash of the enabled-set signatures the execution that produced this job's prefix met
	// at the prefix's choice points (it ran in another process); the replayed prefix must meet the same.
	// ChildSigs/DeferredSigs: the same hash for each child prefix returned by Explore / left in Deferred.
	RootSig      uint64
	ChildSigs    []uint64
	DeferredSigs []uint64
	// Restabilised counts executions of a split job repeated because the choice structure of two
	// consecutive runs of the same schedule differed (process-global state of the code under test).
	Restabilised int

	Execs      int
	Steps      int
	Nodes      int
	ChoicePts  int
	MaxPreempt int
	MaxDepth   int
	Outcomes   map[string]int
	Capped     bool
	Stopped    bool
	Samples    [][]int

	outcome   string
	lastSplit uint64
	stab      int
}

// SigHash hashes the enabled-set signatures of the first n choice points (never 0).
func SigHash(pts []PointRec, n int) uint64 {
	h := uint64(14695981039346656037)
	for i := 0; i < n && i < len(pts); i++ {
		h = (h ^ uint64(pts[i].Sig) ^ uint64(pts[i].N)<<32) * 1099511628211
	}
	if h == 0 {
		h = 1
	}
	return h
}

func (e *Explorer) runOne(prefix []int, sigs []uint32) (*Exec, string) {
	e.outcome = ""
	x := Run(RunOpts{Prefix: prefix, PrefixSig: sigs, Permute: e.Permute, Clock: e.Clock, StepCap: e.StepCap}, func() {
		o := e.Body()
		setOutcome(e, o)
	})
	return x, e.outcome
}

//go:norace
func setOutcome(e *Explorer, o string) { e.outcome = o }

func choicesOf(x *Exec) []int {
	c := make([]int, len(x.Points))
	for i, p := range x.Points {
		c[i] = p.Chosen
	}
	return c
}

// judge turns one execution into at most one violation.
func (e *Explorer) judge(x *Exec, outcome string) *Violation {
	var v *Violation
	switch {
	case x.Verdict == VDiverge:
		panic("vrt: " + x.VerdictMsg + " (nondeterminism not owned by the harness)")
	case x.Verdict != VNone:
		v = &Violation{Kind: x.Verdict, Detail: x.VerdictMsg, Stacks: x.Stacks}
	case x.Races > 0:
		d := "data race reported by the Go race detector"
		if e.RaceDetail != nil {
			d = e.RaceDetail()
		}
		v = &Violation{Kind: "race", Detail: d}
	default:
		if e.Oracle != nil {
			if msg := e.Oracle(x, outcome); msg != "" {
				v = &Violation{Kind: "oracle", Detail: msg}
			}
		}
	}
	if v != nil {
		v.Choices = choicesOf(x)
		for _, s := range x.Stacks {
			v.Detail += " | " + s
		}
	}
	return v
}

// Explore runs the execution selected by prefix (defaults afterwards) and then,
// recursively, every alternative at every later choice point within the bound.
// When split is true it does not recurse but returns the child prefixes.
func (e *Explorer) Explore(prefix []int, split bool) (children [][]int) {
	return e.explore(prefix, nil, split)
}

// explore: sigs, when not nil, are the enabled-set signatures the parent execution recorded at the
// prefix's choice points; the replayed prefix must meet the same ones (a divergence is a hard error).
func (e *Explorer) explore(prefix []int, sigs []uint32, split bool) (children [][]int) {
	if e.Outcomes == nil {
		e.Outcomes = map[string]int{}
	}
	if e.Stopped {
		return nil
	}
	if (!e.Deadline.IsZero() && time.Now().After(e.Deadline)) || (e.MaxExecs > 0 && e.Execs >= e.MaxExecs) {
		e.Capped = true
		return nil
	}
	x, outcome := e.runOne(prefix, sigs)
	e.Execs++
	e.Steps += x.Steps
	e.ChoicePts += len(x.Points) - len(prefix)
	if len(prefix) > 0 && len(prefix) <= len(x.Points) {
		e.Nodes += x.Steps - x.Points[len(prefix)-1].Step + 1
	} else {
		e.Nodes += x.Steps + 1
	}
	if len(x.Points) > e.MaxDepth {
		e.MaxDepth = len(x.Points)
	}
	if x.Preempt > e.MaxPreempt {
		e.MaxPreempt = x.Preempt
	}
	if len(e.Samples) < 3 {
		e.Samples = append(e.Samples, choicesOf(x))
	}
	if len(x.Points) < len(prefix) {
		panic(fmt.Sprintf("vrt: replay divergence: execution had %d choice points, prefix has %d", len(x.Points), len(prefix)))
	}
	if sigs == nil && e.RootSig != 0 && x.Verdict != VDiverge {
		if h := SigHash(x.Points, len(prefix)); h != e.RootSig {
			panic(fmt.Sprintf("vrt: replay divergence: the prefix's %d choice points have signature hash %016x here, %016x where the prefix was produced", len(prefix), h, e.RootSig))
		}
	}
	if split && x.Verdict == VNone && e.stab < 4 {
		// The children of a split job are explored by other processes. If the same schedule run again has
		// another choice structure (this execution built process-global state, the next finds it built),
		// the children are taken from the later, steady one; every run is judged like any other.
		if h := SigHash(x.Points, len(x.Points)); h != e.lastSplit {
			e.lastSplit = h
			if e.stab++; e.stab > 1 {
				e.Restabilised++
			}
			if v := e.judge(x, outcome); v != nil {
				e.Outcomes["VIOLATION:"+v.Kind]++
				if e.OnViolation == nil || !e.OnViolation(v) {
					e.Stopped = true
					return nil
				}
			}
			return e.explore(prefix, sigs, split)
		}
		e.Execs-- // the confirming run of the same schedule is not a new execution of the search
		e.Steps -= x.Steps
	}
	if v := e.judge(x, outcome); v != nil {
		e.Outcomes["VIOLATION:"+v.Kind]++
		if e.OnViolation == nil || !e.OnViolation(v) {
			e.Stopped = true
			return nil
		}
		// A violating execution was cut short: alternatives below its abort
		// point were never reached, those above are still explored.
	} else {
		e.Outcomes[outcome]++
	}
	pre, free := 0, 0
	for i := 0; i < len(prefix); i++ {
		p := x.Points[i]
		if p.Kind == 0 && p.CurEn && p.Chosen != 0 {
			pre++
		}
		if p.Kind == 0 && !p.CurEn && p.Chosen != 0 {
			free++
		}
	}
	for i := len(prefix); i < len(x.Points); i++ {
		p := x.Points[i]
		cost := pre
		if p.Kind == 0 && p.CurEn {
			cost++
		}
		if e.FreeBound > 0 && p.Kind == 0 && !p.CurEn && free+1 > e.FreeBound {
			continue
		}
		if e.Bound < 0 || cost <= e.Bound {
			for alt := 1; alt < p.N; alt++ {
				child := make([]int, i+1)
				for k := 0; k < i; k++ {
					child[k] = x.Points[k].Chosen
				}
				child[i] = alt
				if split {
					children = append(children, child)
					e.ChildSigs = append(e.ChildSigs, SigHash(x.Points, i+1))
				} else if e.JobBudget > 0 && e.Execs >= e.JobBudget {
					e.Deferred = append(e.Deferred, child)
					e.DeferredSigs = append(e.DeferredSigs, SigHash(x.Points, i+1))
				} else {
					csig := make([]uint32, i+1)
					for k := 0; k <= i; k++ {
						csig[k] = x.Points[k].Sig
					}
					e.explore(child, csig, false)
					if e.Stopped {
						return nil
					}
				}
			}
		}
		// the default continuation took Chosen (0 beyond the prefix): no cost
	}
	return children
}
