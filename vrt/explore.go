package vrt

import (
	"fmt"
	"time"
)

// Violation is a property violation found on one execution.
type Violation struct {
	Kind    string   `json:"kind"`   // deadlock | panic | race | misuse | horizon | fail | oracle
	Detail  string   `json:"detail"` // human readable, also what known-finding signatures match on
	Choices []int    `json:"choices"`
	Stacks  []string `json:"stacks,omitempty"`
}

// Explorer is the stateless depth-first search over the scheduler's choices
// with iterative preemption bounding (the bound applies to thread switches
// away from a still-enabled thread; select-arm, permutation and environment
// choices are free).
type Explorer struct {
	Bound int // max preemptions per execution; <0 = unbounded
	// FreeBound, when > 0, additionally bounds the number of non-default
	// choices among enabled threads at points where the running thread blocked
	// or exited (switches that cost no preemption). 0 = unlimited.
	FreeBound int
	Permute   bool
	Clock     int64
	StepCap   int
	// Body runs as thread 0 of every execution and returns an outcome
	// signature (what the harness observed), used to count distinct outcomes.
	Body func() string
	// Oracle is evaluated by the driver after each completed (non-aborted)
	// execution; it returns "" or a violation description.
	Oracle func(x *Exec, outcome string) string
	// RaceDetail is called when the race detector reported during an
	// execution; it should return the normalised report text.
	RaceDetail func() string
	// OnViolation decides whether exploration continues (true) after v.
	OnViolation func(v *Violation) bool

	Deadline time.Time
	MaxExecs int
	// JobBudget > 0: once this many executions have run, subtrees not yet entered are not explored by
	// this call but appended to Deferred (as prefixes) for the caller to schedule as jobs of their own.
	// Nothing is dropped: it bounds the size (and memory) of one job, not the search.
	JobBudget int
	Deferred  [][]int

	Execs      int
	Steps      int
	Nodes      int
	ChoicePts  int
	MaxPreempt int
	MaxDepth   int
	Outcomes   map[string]int
	Capped     bool
	Stopped    bool
	Samples    [][]int

	outcome string
}

func (e *Explorer) runOne(prefix []int) (*Exec, string) {
	e.outcome = ""
	x := Run(RunOpts{Prefix: prefix, Permute: e.Permute, Clock: e.Clock, StepCap: e.StepCap}, func() {
		o := e.Body()
		setOutcome(e, o)
	})
	return x, e.outcome
}

//go:norace
func setOutcome(e *Explorer, o string) { e.outcome = o }

func choicesOf(x *Exec) []int {
	c := make([]int, len(x.Points))
	for i, p := range x.Points {
		c[i] = p.Chosen
	}
	return c
}

// judge turns one execution into at most one violation.
func (e *Explorer) judge(x *Exec, outcome string) *Violation {
	var v *Violation
	switch {
	case x.Verdict == VDiverge:
		panic("vrt: " + x.VerdictMsg + " (nondeterminism not owned by the harness)")
	case x.Verdict != VNone:
		v = &Violation{Kind: x.Verdict, Detail: x.VerdictMsg, Stacks: x.Stacks}
	case x.Races > 0:
		d := "data race reported by the Go race detector"
		if e.RaceDetail != nil {
			d = e.RaceDetail()
		}
		v = &Violation{Kind: "race", Detail: d}
	default:
		if e.Oracle != nil {
			if msg := e.Oracle(x, outcome); msg != "" {
				v = &Violation{Kind: "oracle", Detail: msg}
			}
		}
	}
	if v != nil {
		v.Choices = choicesOf(x)
		for _, s := range x.Stacks {
			v.Detail += " | " + s
		}
	}
	return v
}

// Explore runs the execution selected by prefix (defaults afterwards) and then,
// recursively, every alternative at every later choice point within the bound.
// When split is true it does not recurse but returns the child prefixes.
func (e *Explorer) Explore(prefix []int, split bool) (children [][]int) {
	if e.Outcomes == nil {
		e.Outcomes = map[string]int{}
	}
	if e.Stopped {
		return nil
	}
	if (!e.Deadline.IsZero() && time.Now().After(e.Deadline)) || (e.MaxExecs > 0 && e.Execs >= e.MaxExecs) {
		e.Capped = true
		return nil
	}
	x, outcome := e.runOne(prefix)
	e.Execs++
	e.Steps += x.Steps
	e.ChoicePts += len(x.Points) - len(prefix)
	if len(prefix) > 0 && len(prefix) <= len(x.Points) {
		e.Nodes += x.Steps - x.Points[len(prefix)-1].Step + 1
	} else {
		e.Nodes += x.Steps + 1
	}
	if len(x.Points) > e.MaxDepth {
		e.MaxDepth = len(x.Points)
	}
	if x.Preempt > e.MaxPreempt {
		e.MaxPreempt = x.Preempt
	}
	if len(e.Samples) < 3 {
		e.Samples = append(e.Samples, choicesOf(x))
	}
	if len(x.Points) < len(prefix) {
		panic(fmt.Sprintf("vrt: replay divergence: execution had %d choice points, prefix has %d", len(x.Points), len(prefix)))
	}
	if v := e.judge(x, outcome); v != nil {
		e.Outcomes["VIOLATION:"+v.Kind]++
		if e.OnViolation == nil || !e.OnViolation(v) {
			e.Stopped = true
			return nil
		}
		// A violating execution was cut short: alternatives below its abort
		// point were never reached, those above are still explored.
	} else {
		e.Outcomes[outcome]++
	}
	pre, free := 0, 0
	for i := 0; i < len(prefix); i++ {
		p := x.Points[i]
		if p.Kind == 0 && p.CurEn && p.Chosen != 0 {
			pre++
		}
		if p.Kind == 0 && !p.CurEn && p.Chosen != 0 {
			free++
		}
	}
	for i := len(prefix); i < len(x.Points); i++ {
		p := x.Points[i]
		cost := pre
		if p.Kind == 0 && p.CurEn {
			cost++
		}
		if e.FreeBound > 0 && p.Kind == 0 && !p.CurEn && free+1 > e.FreeBound {
			continue
		}
		if e.Bound < 0 || cost <= e.Bound {
			for alt := 1; alt < p.N; alt++ {
				child := make([]int, i+1)
				for k := 0; k < i; k++ {
					child[k] = x.Points[k].Chosen
				}
				child[i] = alt
				if split {
					children = append(children, child)
				} else if e.JobBudget > 0 && e.Execs >= e.JobBudget {
					e.Deferred = append(e.Deferred, child)
				} else {
					e.Explore(child, false)
					if e.Stopped {
						return nil
					}
				}
			}
		}
		// the default continuation took Chosen (0 beyond the prefix): no cost
	}
	return children
}
