package vrt

import (
	"runtime"
	"unsafe"
)

// Gate is a harness-side latch the scheduler can see: Wait blocks the calling
// controlled thread until Open has been called. It carries a happens-before
// edge from Open to the return of Wait, like closing a channel would.
type Gate struct {
	open bool
	tok  byte
}

//go:norace
func (g *Gate) VrtReady(op OpKind, t *Thread) bool { return g.open }

//go:norace
func (g *Gate) VrtDescribe() string {
	return "harness gate (opened only after the call under test returned)"
}

//go:norace
func (g *Gate) IsOpen() bool { return g.open }

//go:norace
func (g *Gate) Open() {
	if S.active {
		RaceRelease(unsafe.Pointer(&g.tok))
	}
	g.open = true
}

//go:norace
func (g *Gate) Wait() {
	t := Enter()
	if t == nil {
		for !g.open {
			runtime.Gosched()
		}
		return
	}
	if S.aborting {
		Leave()
		return
	}
	Block(t, OpWGWait, g, unsafe.Pointer(g))
	Leave()
	RaceAcquire(unsafe.Pointer(&g.tok))
}
