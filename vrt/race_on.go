//go:build race

package vrt

import (
	"runtime"
	"unsafe"
)

// RaceBuild reports whether the binary carries the Go race detector.
const RaceBuild = true

//go:norace
func RaceDisable() { runtime.RaceDisable() }

//go:norace
func RaceEnable() { runtime.RaceEnable() }

//go:norace
func RaceAcquire(p unsafe.Pointer) { runtime.RaceAcquire(p) }

//go:norace
func RaceRelease(p unsafe.Pointer) { runtime.RaceRelease(p) }

//go:norace
func RaceReleaseMerge(p unsafe.Pointer) { runtime.RaceReleaseMerge(p) }

//go:norace
func RaceRead(p unsafe.Pointer) { runtime.RaceRead(p) }

//go:norace
func RaceWrite(p unsafe.Pointer) { runtime.RaceWrite(p) }

//go:norace
func RaceErrors() int { return runtime.RaceErrors() }
