//go:build !race

package vrt

import "unsafe"

// RaceBuild reports whether the binary carries the Go race detector.
const RaceBuild = false

func RaceDisable()                      {}
func RaceEnable()                       {}
func RaceAcquire(p unsafe.Pointer)      {}
func RaceRelease(p unsafe.Pointer)      {}
func RaceReleaseMerge(p unsafe.Pointer) {}
func RaceRead(p unsafe.Pointer)         {}
func RaceWrite(p unsafe.Pointer)        {}
func RaceErrors() int                   { return 0 }
