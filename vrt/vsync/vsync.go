// Package vsync replaces package sync in the instrumented library sources
// (import rewrite `sync "verif/vrt/vsync"`). Outside a controlled execution
// every type delegates to the real primitive (pass-through); inside one, each
// blocking operation is a scheduling point on a model the scheduler can see,
// and the happens-before edges of the real primitive are re-created with race
// annotations on the same pattern package sync itself uses.
package vsync

import (
	"fmt"
	"sync"
	"unsafe"

	"verif/vrt"
)

type Locker = sync.Locker
type Pool = sync.Pool

// ---- Mutex -----------------------------------------------------------------

type Mutex struct {
	real   sync.Mutex
	locked bool
	owner  int
}

//go:norace
func (m *Mutex) VrtReady(op vrt.OpKind, t *vrt.Thread) bool { return !m.locked }

//go:norace
func (m *Mutex) VrtDescribe() string { return fmt.Sprintf("Mutex held by thread %d", m.owner) }

//go:norace
func (m *Mutex) Lock() {
	t := vrt.Enter()
	if t == nil {
		m.real.Lock()
		return
	}
	if vrt.Aborting() {
		vrt.Leave()
		return
	}
	vrt.Block(t, vrt.OpLock, m, unsafe.Pointer(m))
	m.locked, m.owner = true, t.ID
	vrt.Leave()
	vrt.RaceAcquire(unsafe.Pointer(m))
}

//go:norace
func (m *Mutex) TryLock() bool {
	t := vrt.Enter()
	if t == nil {
		return m.real.TryLock()
	}
	vrt.Leave()
	vrt.Point("trylock")
	vrt.Enter()
	if m.locked {
		vrt.Leave()
		return false
	}
	m.locked, m.owner = true, t.ID
	vrt.Leave()
	vrt.RaceAcquire(unsafe.Pointer(m))
	return true
}

//go:norace
func (m *Mutex) Unlock() {
	if !vrt.Active() {
		m.real.Unlock()
		return
	}
	vrt.RaceRelease(unsafe.Pointer(m))
	vrt.Enter()
	if vrt.Aborting() {
		vrt.Leave()
		return
	}
	if !m.locked {
		vrt.Misuse("sync: unlock of unlocked mutex")
	}
	m.locked = false
	vrt.Leave()
}

// ---- RWMutex ---------------------------------------------------------------

// RWMutex models Go's writer-preferring RWMutex: Lock first takes the writer
// slot and announces itself (from then on new RLocks block), then waits for
// the active readers to drain. A recursive RLock with a writer in between
// therefore deadlocks in the model exactly as it does in Go.
type RWMutex struct {
	real      sync.RWMutex
	wHeld     bool // writer slot taken (announced or active writer)
	wActive   bool
	wOwner    int
	readers   int
	rOwners   [8]int
	readerSem byte
	writerSem byte
}

//go:norace
func (rw *RWMutex) VrtReady(op vrt.OpKind, t *vrt.Thread) bool {
	switch op {
	case vrt.OpLock:
		return !rw.wHeld
	case vrt.OpLockDrain:
		return rw.readers == 0
	case vrt.OpRLock:
		return !rw.wHeld
	}
	return false
}

//go:norace
func (rw *RWMutex) VrtDescribe() string {
	s := "RWMutex{"
	if rw.wActive {
		s += fmt.Sprintf("write-locked by thread %d", rw.wOwner)
	} else if rw.wHeld {
		s += fmt.Sprintf("writer thread %d waiting for readers", rw.wOwner)
	}
	if rw.readers > 0 {
		s += fmt.Sprintf(" %d reader(s):", rw.readers)
		for i := 0; i < rw.readers && i < len(rw.rOwners); i++ {
			s += fmt.Sprintf(" t%d", rw.rOwners[i])
		}
	}
	return s + "}"
}

//go:norace
func (rw *RWMutex) Lock() {
	t := vrt.Enter()
	if t == nil {
		rw.real.Lock()
		return
	}
	if vrt.Aborting() {
		vrt.Leave()
		return
	}
	vrt.Block(t, vrt.OpLock, rw, unsafe.Pointer(rw))
	rw.wHeld, rw.wOwner = true, t.ID
	if rw.readers > 0 {
		vrt.Block(t, vrt.OpLockDrain, rw, unsafe.Pointer(rw))
	}
	rw.wActive = true
	vrt.Leave()
	vrt.RaceAcquire(unsafe.Pointer(&rw.readerSem))
	vrt.RaceAcquire(unsafe.Pointer(&rw.writerSem))
}

//go:norace
func (rw *RWMutex) Unlock() {
	if !vrt.Active() {
		rw.real.Unlock()
		return
	}
	vrt.RaceRelease(unsafe.Pointer(&rw.readerSem))
	vrt.Enter()
	if vrt.Aborting() {
		vrt.Leave()
		return
	}
	if !rw.wActive {
		vrt.Misuse("sync: Unlock of unlocked RWMutex")
	}
	rw.wActive, rw.wHeld = false, false
	vrt.Leave()
}

//go:norace
func (rw *RWMutex) RLock() {
	t := vrt.Enter()
	if t == nil {
		rw.real.RLock()
		return
	}
	if vrt.Aborting() {
		vrt.Leave()
		return
	}
	vrt.Block(t, vrt.OpRLock, rw, unsafe.Pointer(rw))
	if rw.readers < len(rw.rOwners) {
		rw.rOwners[rw.readers] = t.ID
	}
	rw.readers++
	vrt.Leave()
	vrt.RaceAcquire(unsafe.Pointer(&rw.readerSem))
}

//go:norace
func (rw *RWMutex) RUnlock() {
	if !vrt.Active() {
		rw.real.RUnlock()
		return
	}
	vrt.RaceReleaseMerge(unsafe.Pointer(&rw.writerSem))
	t := vrt.Enter()
	if vrt.Aborting() {
		vrt.Leave()
		return
	}
	if rw.readers <= 0 {
		vrt.Misuse("sync: RUnlock of unlocked RWMutex")
	}
	// forget one owner entry of this thread (diagnostics only)
	for i := 0; i < rw.readers && i < len(rw.rOwners); i++ {
		if rw.rOwners[i] == t.ID {
			last := rw.readers - 1
			if last < len(rw.rOwners) {
				rw.rOwners[i] = rw.rOwners[last]
			}
			break
		}
	}
	rw.readers--
	vrt.Leave()
}

//go:norace
func (rw *RWMutex) TryLock() bool {
	if !vrt.Active() {
		return rw.real.TryLock()
	}
	vrt.Point("trylock")
	t := vrt.Enter()
	if rw.wHeld || rw.readers > 0 {
		vrt.Leave()
		return false
	}
	rw.wHeld, rw.wActive, rw.wOwner = true, true, t.ID
	vrt.Leave()
	vrt.RaceAcquire(unsafe.Pointer(&rw.readerSem))
	vrt.RaceAcquire(unsafe.Pointer(&rw.writerSem))
	return true
}

//go:norace
func (rw *RWMutex) TryRLock() bool {
	if !vrt.Active() {
		return rw.real.TryRLock()
	}
	vrt.Point("tryrlock")
	t := vrt.Enter()
	if rw.wHeld {
		vrt.Leave()
		return false
	}
	if rw.readers < len(rw.rOwners) {
		rw.rOwners[rw.readers] = t.ID
	}
	rw.readers++
	vrt.Leave()
	vrt.RaceAcquire(unsafe.Pointer(&rw.readerSem))
	return true
}

type rlocker RWMutex

func (r *rlocker) Lock()   { (*RWMutex)(r).RLock() }
func (r *rlocker) Unlock() { (*RWMutex)(r).RUnlock() }

func (rw *RWMutex) RLocker() Locker { return (*rlocker)(rw) }

// ---- WaitGroup -------------------------------------------------------------

type WaitGroup struct {
	real  sync.WaitGroup
	n     int
	waits int
	sema  byte
}

//go:norace
func (wg *WaitGroup) VrtReady(op vrt.OpKind, t *vrt.Thread) bool { return wg.n == 0 }

//go:norace
func (wg *WaitGroup) VrtDescribe() string { return fmt.Sprintf("WaitGroup counter=%d", wg.n) }

//go:norace
func (wg *WaitGroup) Add(delta int) {
	if !vrt.Active() {
		wg.real.Add(delta)
		return
	}
	if delta < 0 {
		vrt.RaceReleaseMerge(unsafe.Pointer(wg))
	}
	vrt.Enter()
	if vrt.Aborting() {
		vrt.Leave()
		return
	}
	was := wg.n
	wg.n += delta
	if wg.n < 0 {
		vrt.Misuse("sync: negative WaitGroup counter")
	}
	w := wg.waits
	vrt.Leave()
	if delta > 0 && was == 0 {
		// mirror package sync: the first increment must be synchronised with
		// Wait; a concurrent Wait is reported by the race detector.
		vrt.RaceRead(unsafe.Pointer(&wg.sema))
	}
	_ = w
}

//go:norace
func (wg *WaitGroup) Done() { wg.Add(-1) }

//go:norace
func (wg *WaitGroup) Wait() {
	t := vrt.Enter()
	if t == nil {
		wg.real.Wait()
		return
	}
	if vrt.Aborting() {
		vrt.Leave()
		return
	}
	first := wg.n != 0 && wg.waits == 0
	wg.waits++
	if first {
		vrt.Leave()
		vrt.RaceWrite(unsafe.Pointer(&wg.sema))
		vrt.Enter()
	}
	vrt.Block(t, vrt.OpWGWait, wg, unsafe.Pointer(wg))
	wg.waits--
	vrt.Leave()
	vrt.RaceAcquire(unsafe.Pointer(wg))
}

// ---- Once ------------------------------------------------------------------

type Once struct {
	m    Mutex
	done bool
}

func (o *Once) Do(f func()) {
	o.m.Lock()
	defer o.m.Unlock()
	if !o.done {
		defer func() { o.done = true }()
		f()
	}
}

func OnceFunc(f func()) func() {
	var o Once
	return func() { o.Do(f) }
}

func OnceValue[T any](f func() T) func() T {
	var o Once
	var v T
	return func() T { o.Do(func() { v = f() }); return v }
}

func OnceValues[T1, T2 any](f func() (T1, T2)) func() (T1, T2) {
	var o Once
	var v1 T1
	var v2 T2
	return func() (T1, T2) { o.Do(func() { v1, v2 = f() }); return v1, v2 }
}

// ---- Map -------------------------------------------------------------------

// Map wraps the real sync.Map (so Store/Load/Delete keep their native
// happens-before edges) and additionally remembers insertion order, so that
// Range — whose order is pseudo-random in the real implementation — visits
// keys in an order owned by the exploration: insertion order by default, an
// explored permutation when the harness asks for it. Each Range visit re-reads
// the current mapping of the key and is a scheduling point, which realises the
// documented contract (no key twice; any mapping from during the call).
type Map struct {
	real sync.Map
	mu   sync.Mutex
	// insertion order of the live keys. All bookkeeping runs with race synchronisation disabled and under mu
	// (it is the harness's, not the program's, state); keys may be many (a package-level cache keyed by type).
	keys []any       // insertion order; deleted entries are tombstones until compaction
	idx  map[any]int // key -> position in keys
	dead int
}

type tombstone struct{}

//go:norace
func (m *Map) noteStore(k any) {
	vrt.RaceDisable()
	m.mu.Lock()
	if m.idx == nil {
		m.idx = map[any]int{}
	}
	if _, found := m.idx[k]; !found {
		m.idx[k] = len(m.keys)
		m.keys = append(m.keys, k)
	}
	m.mu.Unlock()
	vrt.RaceEnable()
}

//go:norace
func (m *Map) noteDelete(k any) {
	vrt.RaceDisable()
	m.mu.Lock()
	if i, found := m.idx[k]; found {
		delete(m.idx, k)
		m.keys[i] = tombstone{}
		m.dead++
		if m.dead > 32 && m.dead > len(m.keys)/2 {
			live := make([]any, 0, len(m.keys)-m.dead)
			for _, x := range m.keys {
				if _, gone := x.(tombstone); !gone {
					m.idx[x] = len(live)
					live = append(live, x)
				}
			}
			m.keys, m.dead = live, 0
		}
	}
	m.mu.Unlock()
	vrt.RaceEnable()
}

//go:norace
func (m *Map) snapshot() []any {
	vrt.RaceDisable()
	m.mu.Lock()
	out := make([]any, 0, len(m.keys)-m.dead)
	for _, x := range m.keys {
		if _, gone := x.(tombstone); !gone {
			out = append(out, x)
		}
	}
	m.mu.Unlock()
	vrt.RaceEnable()
	return out
}

func (m *Map) Load(key any) (any, bool) {
	vrt.Point("map.load")
	return m.real.Load(key)
}

func (m *Map) Store(key, value any) {
	vrt.Point("map.store")
	m.noteStore(key)
	m.real.Store(key, value)
}

func (m *Map) LoadOrStore(key, value any) (any, bool) {
	vrt.Point("map.loadorstore")
	a, loaded := m.real.LoadOrStore(key, value)
	if !loaded {
		m.noteStore(key)
	}
	return a, loaded
}

func (m *Map) LoadAndDelete(key any) (any, bool) {
	vrt.Point("map.loadanddelete")
	m.noteDelete(key)
	return m.real.LoadAndDelete(key)
}

func (m *Map) Delete(key any) {
	vrt.Point("map.delete")
	m.noteDelete(key)
	m.real.Delete(key)
}

func (m *Map) Swap(key, value any) (any, bool) {
	vrt.Point("map.swap")
	m.noteStore(key)
	return m.real.Swap(key, value)
}

func (m *Map) CompareAndSwap(key, old, new any) bool {
	vrt.Point("map.cas")
	return m.real.CompareAndSwap(key, old, new)
}

func (m *Map) CompareAndDelete(key, old any) bool {
	vrt.Point("map.cad")
	ok := m.real.CompareAndDelete(key, old)
	if ok {
		m.noteDelete(key)
	}
	return ok
}

func (m *Map) Clear() {
	vrt.Point("map.clear")
	for _, k := range m.snapshot() {
		m.noteDelete(k)
		m.real.Delete(k)
	}
}

func (m *Map) Range(f func(key, value any) bool) {
	if !vrt.Active() {
		// pass-through keeps the deterministic order (a legal order of the real Range)
		for _, k := range m.snapshot() {
			v, ok := m.real.Load(k)
			if !ok {
				continue
			}
			if !f(k, v) {
				return
			}
		}
		return
	}
	var visited []any
	for {
		cur := m.snapshot()
		cand := cur[:0:0]
		for _, k := range cur {
			seen := false
			for _, v := range visited {
				if v == k {
					seen = true
					break
				}
			}
			if !seen {
				cand = append(cand, k)
			}
		}
		if len(cand) == 0 {
			return
		}
		i := 0
		if vrt.PermuteMaps() {
			i = vrt.Choose(len(cand))
		}
		k := cand[i]
		visited = append(visited, k)
		vrt.Point("map.range-visit")
		v, ok := m.real.Load(k)
		if !ok {
			continue
		}
		if !f(k, v) {
			return
		}
	}
}

// VerifKeys returns the keys in insertion order (state dumps).
func (m *Map) VerifKeys() []any { return m.snapshot() }

// VerifLoad reads without a scheduling point (state dumps).
func (m *Map) VerifLoad(k any) (any, bool) { return m.real.Load(k) }

// ---- Cond (not used by the library; provided so edits keep compiling) ---------

type Cond struct {
	L       Locker
	waiters int
	signals int
}

func NewCond(l Locker) *Cond { return &Cond{L: l} }

//go:norace
func (c *Cond) VrtReady(op vrt.OpKind, t *vrt.Thread) bool { return c.signals > 0 }

func (c *Cond) Wait() {
	if !vrt.Active() {
		panic("vsync.Cond: pass-through not supported")
	}
	c.waiters++
	c.L.Unlock()
	t := vrt.Enter()
	vrt.Block(t, vrt.OpWGWait, c, unsafe.Pointer(c))
	c.signals--
	c.waiters--
	vrt.Leave()
	c.L.Lock()
}

//go:norace
func (c *Cond) Signal() {
	if c.waiters > c.signals {
		c.signals++
	}
}

//go:norace
func (c *Cond) Broadcast() { c.signals = c.waiters }
