package vrt

import (
	"fmt"
	"reflect"
	"sort"
	"strings"
	"sync"
	"unsafe"
)

// Dump renders the complete (also unexported) state reachable from v into a
// canonical string: struct fields in declaration order, map entries sorted by
// key, pointers followed with back-references numbered in first-visit order,
// sync primitives and funcs skipped. Values implementing Namer are replaced by
// their harness name; types implementing dumper (vsync.Map) expand to their
// entries. Two objects with equal dumps have equal private state.
type Namer interface{ VerifName() string }

type keyLister interface {
	VerifKeys() []any
	VerifLoad(k any) (any, bool)
}

type dumper struct {
	sb   strings.Builder
	seen map[unsafe.Pointer]int
	skip func(t reflect.Type, field string) bool
}

// Dump returns the canonical rendering of v (normally a pointer).
func Dump(v any, skip func(t reflect.Type, field string) bool) string {
	d := &dumper{seen: map[unsafe.Pointer]int{}, skip: skip}
	d.walk(reflect.ValueOf(v), 0)
	return d.sb.String()
}

func access(v reflect.Value) reflect.Value {
	if v.CanInterface() {
		return v
	}
	if v.CanAddr() {
		return reflect.NewAt(v.Type(), unsafe.Pointer(v.UnsafeAddr())).Elem()
	}
	// copy into addressable storage
	c := reflect.New(v.Type()).Elem()
	// cannot Set from unexported; fall back to formatting
	return c
}

func (d *dumper) walk(v reflect.Value, depth int) {
	if depth > 40 {
		d.sb.WriteString("<deep>")
		return
	}
	if !v.IsValid() {
		d.sb.WriteString("nil")
		return
	}
	if v.Kind() != reflect.Invalid && v.CanAddr() && !v.CanInterface() {
		v = access(v)
	}
	if v.CanInterface() && (v.Kind() == reflect.Ptr || v.Kind() == reflect.Interface || v.Kind() == reflect.Struct) {
		if v.Kind() != reflect.Ptr && v.Kind() != reflect.Interface || !v.IsNil() {
			if n, ok := v.Interface().(Namer); ok {
				d.sb.WriteString("<" + n.VerifName() + ">")
				return
			}
		}
	}
	t := v.Type()
	switch t.PkgPath() + "." + t.Name() {
	case "sync.Mutex", "sync.RWMutex", "sync.WaitGroup":
		d.sb.WriteString("<sync>")
		return
	case "verif/vrt/vsync.Mutex", "verif/vrt/vsync.RWMutex", "verif/vrt/vsync.WaitGroup":
		// between two operations of a sequential history these are at rest; a lock or counter a call
		// left behind is state (the next call will hang on it), so it is part of the dump. Once (either
		// flavour) is walked like any struct: whether it has fired is state.
		d.sb.WriteString("<sync")
		for _, f := range []string{"locked", "wHeld", "readers", "n"} {
			if fv := v.FieldByName(f); fv.IsValid() && !fv.IsZero() {
				d.sb.WriteString(" " + f + "!")
			}
		}
		d.sb.WriteString(">")
		return
	case "time.Time":
		if v.CanInterface() {
			d.sb.WriteString(fmt.Sprint(v.Interface()))
		} else {
			d.sb.WriteString("<time>")
		}
		return
	case "sync.Map":
		if v.CanAddr() {
			m := v.Addr().Interface().(*sync.Map)
			var keys []any
			m.Range(func(k, _ any) bool { keys = append(keys, k); return true })
			sort.Slice(keys, func(i, j int) bool { return fmt.Sprint(keys[i]) < fmt.Sprint(keys[j]) })
			strs := make([]string, 0, len(keys))
			for _, k := range keys {
				val, _ := m.Load(k)
				sub := &dumper{seen: d.seen, skip: d.skip}
				sub.walk(reflect.ValueOf(val), depth+1)
				strs = append(strs, fmt.Sprint(k)+":"+sub.sb.String())
			}
			d.sb.WriteString("syncmap{" + strings.Join(strs, ",") + "}")
			return
		}
	case "verif/vrt/vsync.Map":
		if v.CanAddr() {
			kl := v.Addr().Interface().(keyLister)
			keys := kl.VerifKeys()
			sort.Slice(keys, func(i, j int) bool { return fmt.Sprint(keys[i]) < fmt.Sprint(keys[j]) })
			strs := make([]string, 0, len(keys))
			for _, k := range keys {
				val, ok := kl.VerifLoad(k)
				if !ok {
					continue
				}
				sub := &dumper{seen: d.seen, skip: d.skip}
				sub.walk(reflect.ValueOf(val), depth+1)
				strs = append(strs, fmt.Sprint(k)+":"+sub.sb.String())
			}
			d.sb.WriteString("syncmap{" + strings.Join(strs, ",") + "}")
			return
		}
	}
	switch v.Kind() {
	case reflect.Ptr:
		if v.IsNil() {
			d.sb.WriteString("nil")
			return
		}
		p := unsafe.Pointer(v.Pointer())
		if id, ok := d.seen[p]; ok {
			fmt.Fprintf(&d.sb, "^%d", id)
			return
		}
		d.seen[p] = len(d.seen) + 1
		fmt.Fprintf(&d.sb, "&%d", len(d.seen))
		d.walk(v.Elem(), depth+1)
	case reflect.Interface:
		if v.IsNil() {
			d.sb.WriteString("nil")
			return
		}
		d.sb.WriteString("(" + v.Elem().Type().String() + ")")
		d.walk(v.Elem(), depth+1)
	case reflect.Struct:
		d.sb.WriteString(t.Name() + "{")
		for i := 0; i < v.NumField(); i++ {
			f := t.Field(i)
			if d.skip != nil && d.skip(t, f.Name) {
				continue
			}
			d.sb.WriteString(f.Name + ":")
			fv := v.Field(i)
			if !fv.CanInterface() {
				if fv.CanAddr() {
					fv = reflect.NewAt(fv.Type(), unsafe.Pointer(fv.UnsafeAddr())).Elem()
				} else {
					// make the parent addressable
					c := reflect.New(t).Elem()
					c.Set(reflect.ValueOf(forceIface(v)))
					fv = c.Field(i)
					fv = reflect.NewAt(fv.Type(), unsafe.Pointer(fv.UnsafeAddr())).Elem()
				}
			}
			d.walk(fv, depth+1)
			d.sb.WriteString(" ")
		}
		d.sb.WriteString("}")
	case reflect.Map:
		if v.IsNil() {
			d.sb.WriteString("nilmap")
			return
		}
		keys := v.MapKeys()
		type kv struct {
			ks string
			k  reflect.Value
		}
		kvs := make([]kv, 0, len(keys))
		for _, k := range keys {
			ks := &dumper{seen: map[unsafe.Pointer]int{}, skip: d.skip}
			ks.walk(k, depth+1)
			kvs = append(kvs, kv{ks.sb.String(), k})
		}
		sort.Slice(kvs, func(i, j int) bool { return kvs[i].ks < kvs[j].ks })
		strs := make([]string, 0, len(keys))
		for _, e := range kvs {
			vs := &dumper{seen: d.seen, skip: d.skip}
			vs.walk(v.MapIndex(e.k), depth+1)
			strs = append(strs, e.ks+":"+vs.sb.String())
		}
		d.sb.WriteString("map{" + strings.Join(strs, ",") + "}")
	case reflect.Slice, reflect.Array:
		if v.Kind() == reflect.Slice && v.IsNil() {
			d.sb.WriteString("nilslice")
			return
		}
		if t.Elem().Kind() == reflect.Uint8 {
			b := make([]byte, v.Len())
			for i := range b {
				b[i] = byte(v.Index(i).Uint())
			}
			fmt.Fprintf(&d.sb, "%q", b)
			return
		}
		d.sb.WriteString("[")
		for i := 0; i < v.Len(); i++ {
			d.walk(v.Index(i), depth+1)
			d.sb.WriteString(",")
		}
		d.sb.WriteString("]")
	case reflect.Func:
		if v.IsNil() {
			d.sb.WriteString("nilfunc")
		} else {
			d.sb.WriteString("func")
		}
	case reflect.Chan, reflect.UnsafePointer:
		d.sb.WriteString("<" + v.Kind().String() + ">")
	case reflect.String:
		fmt.Fprintf(&d.sb, "%q", v.String())
	case reflect.Bool:
		fmt.Fprint(&d.sb, v.Bool())
	case reflect.Int, reflect.Int8, reflect.Int16, reflect.Int32, reflect.Int64:
		fmt.Fprint(&d.sb, v.Int())
	case reflect.Uint, reflect.Uint8, reflect.Uint16, reflect.Uint32, reflect.Uint64, reflect.Uintptr:
		fmt.Fprint(&d.sb, v.Uint())
	case reflect.Float32, reflect.Float64:
		fmt.Fprint(&d.sb, v.Float())
	default:
		d.sb.WriteString("<" + v.Kind().String() + ">")
	}
}

// forceIface returns v's value as an interface even when it was obtained
// through unexported fields.
func forceIface(v reflect.Value) any {
	if v.CanInterface() {
		return v.Interface()
	}
	if v.CanAddr() {
		return reflect.NewAt(v.Type(), unsafe.Pointer(v.UnsafeAddr())).Elem().Interface()
	}
	return reflect.Zero(v.Type()).Interface()
}
