// Package vrt is the verification runtime: a cooperative, fully controlled
// scheduler for the goroutines of one execution of real library code, the
// models of the synchronisation primitives the library uses, and a stateless
// depth-first explorer over the choices the scheduler makes.
//
// Discipline (see DESIGN.md §2.2/§2.3): every function that touches scheduler
// state is //go:norace, cross-thread scheduler state lives in fixed-size arrays
// (no maps, no append), and every hand-off between goroutines happens with
// race-detector synchronisation events disabled, so the scheduler itself adds
// no happens-before edge. The primitives re-create exactly the edges their
// real counterparts have with RaceAcquire/RaceRelease.
package vrt

import (
	"fmt"
	"runtime"
	"strings"
	"unsafe"
)

const (
	MaxThreads = 48
	MaxPoints  = 8192
	MaxSteps   = 40000
	MaxChans   = 96
	MaxTokens  = 1 << 16
	MaxObjs    = 512
)

// OpKind names the visible operation a thread is about to perform.
type OpKind uint8

const (
	OpNone OpKind = iota
	OpStart
	OpResume
	OpPoint
	OpLock
	OpLockDrain
	OpRLock
	OpWGWait
	OpSend
	OpRecv
	OpSelect
	OpClose
	OpJoin
	OpMapOp
	OpCond
)

var opNames = [...]string{"none", "start", "resume", "point", "lock", "lock-drain", "rlock", "wg-wait", "send", "recv", "select", "close", "join", "map-op", "cond"}

func (o OpKind) String() string { return opNames[o] }

// Waiter is implemented by modelled primitives; Ready is evaluated in
// scheduler context (norace) to compute the enabled set.
type Waiter interface {
	VrtReady(op OpKind, t *Thread) bool
}

const (
	tsFree uint8 = iota
	tsLive
	tsDone
)

// Thread is one controlled goroutine.
type Thread struct {
	ID    int
	Name  string
	state uint8
	wake  chan struct{}

	op     OpKind
	w      Waiter
	wobj   unsafe.Pointer
	label  string
	ch     *chanModel
	sendV  any
	cases  []SelCase
	hasDef bool
	cond   func() bool

	// filled by a partner that completed this thread's pending operation
	done   bool
	arm    int
	recvV  any
	recvOK bool
	tok    int // token this thread released when it announced its operation
	ptok   int // token to acquire after completion (-1: none)

	spawnedInCall bool
	stack         string
}

// Verdict kinds for an aborted execution.
const (
	VNone     = ""
	VDeadlock = "deadlock"
	VPanic    = "panic"
	VHorizon  = "horizon"
	VMisuse   = "misuse"
	VFail     = "fail"
	VDiverge  = "diverge"
)

// PointRec describes one recorded choice point.
type PointRec struct {
	N      int  // number of alternatives
	Kind   int  // 0 thread, 1 select arm, 2 environment / permutation
	CurEn  bool // thread choice: running thread still enabled (alt != 0 is a preemption)
	Chosen int
	Sig    uint32
	Step   int // scheduler step count when the point was reached
}

type sched struct {
	active   bool
	aborting bool
	threads  [MaxThreads]Thread
	nthreads int
	live     int
	cur      *Thread
	done     chan struct{}
	en       [MaxThreads]*Thread

	prefix    []int
	prefixSig []uint32
	points    [MaxPoints]PointRec
	npoints   int
	steps     int
	preempt   int

	verdict    string
	verdictMsg string

	chans  [MaxChans]chanModel
	nchans int

	tokens [MaxTokens]byte
	ntok   int

	objs  [MaxObjs]unsafe.Pointer
	nobjs int
	hash  uint64

	clock      int64
	clockOn    bool
	timers     [32]timer
	ntimers    int
	permute    bool
	joinTok    byte
	raceBefore int

	stepCap   int
	quiet     int
	loopTicks int
}

// S is the single scheduler of this process.
var S sched

func init() {
	S.done = make(chan struct{}, 1)
	for i := range S.threads {
		S.threads[i].wake = make(chan struct{}, 1)
		S.threads[i].ID = i
	}
}

// Active reports whether a controlled execution is in progress.
//
//go:norace
func Active() bool { return S.active }

// Enter returns the running controlled thread with race synchronisation
// disabled, or nil (nothing disabled) in pass-through mode.
//
//go:norace
func Enter() *Thread {
	if !S.active {
		return nil
	}
	RaceDisable()
	return S.cur
}

// Leave re-enables race synchronisation events.
//
//go:norace
func Leave() { RaceEnable() }

//go:norace
func (s *sched) newToken() int {
	s.ntok++
	if s.ntok >= MaxTokens {
		s.ntok = 1
	}
	return s.ntok
}

//go:norace
func tokPtr(i int) unsafe.Pointer { return unsafe.Pointer(&S.tokens[i]) }

//go:norace
func (s *sched) objOrdinal(p unsafe.Pointer) int {
	if p == nil {
		return 0
	}
	for i := 0; i < s.nobjs; i++ {
		if s.objs[i] == p {
			return i + 1
		}
	}
	if s.nobjs < MaxObjs {
		s.objs[s.nobjs] = p
		s.nobjs++
		return s.nobjs
	}
	return MaxObjs + 1
}

//go:norace
func (s *sched) mix(v uint64) {
	s.hash ^= v
	s.hash *= 1099511628211
}

//go:norace
func (s *sched) enabled(t *Thread) bool {
	if t.done {
		return true
	}
	switch t.op {
	case OpStart, OpResume, OpPoint, OpClose, OpMapOp:
		return true
	case OpLock, OpLockDrain, OpRLock, OpWGWait:
		return t.w.VrtReady(t.op, t)
	case OpSend:
		return t.ch.sendReady(t)
	case OpRecv:
		return t.ch.recvReady()
	case OpSelect:
		if t.hasDef {
			return true
		}
		for i := range t.cases {
			if s.caseReady(t, &t.cases[i]) {
				return true
			}
		}
		return false
	case OpJoin:
		for i := 0; i < s.nthreads; i++ {
			o := &s.threads[i]
			if o != t && o.state == tsLive {
				return false
			}
		}
		return true
	case OpCond:
		return t.cond()
	}
	return false
}

// nextChoice records a choice point with n>1 alternatives and returns the
// alternative to take: from the prefix while replaying, 0 afterwards.
//
//go:norace
func (s *sched) nextChoice(n int, kind int, curEn bool, sig uint32) int {
	if s.quiet > 0 {
		return 0 // harness setup phase: deterministic default schedule, no choice points
	}
	if s.npoints >= MaxPoints {
		s.setVerdict(VHorizon, "choice point cap reached")
		return 0
	}
	i := s.npoints
	c := 0
	if i < len(s.prefix) {
		c = s.prefix[i]
		if c >= n || c < 0 {
			s.setVerdict(VDiverge, fmt.Sprintf("replay divergence at point %d: choice %d of %d alternatives", i, c, n))
			c = 0
		}
		if i < len(s.prefixSig) && s.prefixSig[i] != 0 && s.prefixSig[i] != sig {
			s.setVerdict(VDiverge, fmt.Sprintf("replay divergence at point %d: enabled-set signature %08x != recorded %08x", i, sig, s.prefixSig[i]))
		}
	}
	s.points[i] = PointRec{N: n, Kind: kind, CurEn: curEn, Chosen: c, Sig: sig, Step: s.steps}
	s.npoints++
	if kind == 0 && curEn && c != 0 {
		s.preempt++
	}
	return c
}

//go:norace
func (s *sched) setVerdict(kind, msg string) {
	if s.verdict == VNone || (kind == VDiverge && s.verdict != VDiverge) {
		s.verdict = kind
		s.verdictMsg = msg
	}
	s.aborting = true
}

// pick chooses the next thread to run. cur may be nil (the running thread
// just exited). Returns nil when nothing is enabled.
//
//go:norace
func (s *sched) pick(cur *Thread) *Thread {
	n := 0
	curEn := cur != nil && cur.state == tsLive && s.enabled(cur)
	if curEn {
		s.en[n] = cur
		n++
	}
	for i := 0; i < s.nthreads; i++ {
		t := &s.threads[i]
		if t != cur && t.state == tsLive && s.enabled(t) {
			s.en[n] = t
			n++
		}
	}
	if n == 0 {
		return nil
	}
	c := 0
	if n > 1 {
		var sig uint32 = 2166136261
		for i := 0; i < n; i++ {
			sig = (sig ^ uint32(s.en[i].ID*31+int(s.en[i].op))) * 16777619
		}
		c = s.nextChoice(n, 0, curEn, sig)
	}
	return s.en[c]
}

//go:norace
func (s *sched) describeBlocked() string {
	out := ""
	for i := 0; i < s.nthreads; i++ {
		t := &s.threads[i]
		if t.state != tsLive {
			continue
		}
		out += fmt.Sprintf("thread %d(%s) blocked at %s", t.ID, t.Name, t.op)
		if t.label != "" {
			out += " [" + t.label + "]"
		}
		if t.w != nil {
			if d, ok := t.w.(interface{ VrtDescribe() string }); ok {
				out += " " + d.VrtDescribe()
			}
		}
		out += "; "
	}
	return out
}

// yield parks the calling thread t (whose pending operation has been set) and
// runs whichever thread the exploration chooses. It returns true when t has
// been granted its operation, false when the execution is being aborted (the
// caller must then Leave() and runtime.Goexit()).
//
//go:norace
func (s *sched) yield(t *Thread) bool {
	if s.aborting {
		return false
	}
	s.steps++
	if s.steps > s.stepCap {
		s.setVerdict(VHorizon, fmt.Sprintf("step cap %d reached (livelock or horizon): %s", s.stepCap, s.describeBlocked()))
		return false
	}
	next := s.pick(t)
	if s.aborting {
		return false
	}
	if next == nil {
		s.setVerdict(VDeadlock, s.describeBlocked())
		return false
	}
	if next != t {
		s.cur = next
		next.wake <- struct{}{}
		<-t.wake
		if s.aborting {
			return false
		}
	}
	s.mix(uint64(t.ID)<<40 | uint64(t.op)<<32 | uint64(s.objOrdinal(t.wobj)))
	return true
}

// abortSelf is called by a thread that found the execution aborting: record
// where it was (for deadlock reports) and leave through Goexit so deferred
// library code still runs (as no-ops on the modelled primitives).
//
//go:norace
func (s *sched) noteStack(t *Thread) {
	if s.verdict == VDeadlock || s.verdict == VHorizon {
		var pcs [24]uintptr
		n := runtime.Callers(3, pcs[:])
		fr := runtime.CallersFrames(pcs[:n])
		st := ""
		for {
			f, more := fr.Next()
			if f.Function != "" && !isRuntimeFrame(f.Function) {
				st += fmt.Sprintf("%s:%d<", trimFn(f.Function), f.Line)
			}
			if !more {
				break
			}
		}
		t.stack = st
	}
}

func isRuntimeFrame(fn string) bool {
	return len(fn) >= 8 && fn[:8] == "runtime."
}

func trimFn(fn string) string {
	for i := len(fn) - 1; i >= 0; i-- {
		if fn[i] == '/' {
			return fn[i+1:]
		}
	}
	return fn
}

// Block announces a blocking operation on a modelled primitive and returns
// once it has been granted. Called between Enter and Leave.
//
//go:norace
func Block(t *Thread, op OpKind, w Waiter, obj unsafe.Pointer) {
	t.op, t.w, t.wobj, t.done, t.label = op, w, obj, false, ""
	if !S.yield(t) {
		S.noteStack(t)
		Leave()
		runtime.Goexit()
	}
	t.op, t.w = OpNone, nil
}

// Aborting reports whether the current execution is being torn down.
//
//go:norace
func Aborting() bool { return S.aborting }

// Point is an explicit scheduling point (harness nodes, environment steps).
//
// AtomicPoint is a scheduling point placed (by the instrumenter) before an operation of sync/atomic;
// it hands its argument through so that it can wrap the receiver or the address operand in place.
//
//go:norace
func AtomicPoint[T any](p T) T {
	Point("atomic")
	return p
}

func Point(label string) {
	t := Enter()
	if t == nil {
		return
	}
	if S.aborting {
		Leave()
		return
	}
	t.op, t.w, t.wobj, t.done, t.label = OpPoint, nil, nil, false, label
	if !S.yield(t) {
		S.noteStack(t)
		Leave()
		runtime.Goexit()
	}
	t.op = OpNone
	Leave()
}

// WaitUntil blocks the calling thread until cond (evaluated in scheduler
// context; it must only read harness state written by controlled threads and
// must be a //go:norace function) returns true.
//
//go:norace
func WaitUntil(label string, cond func() bool) {
	t := Enter()
	if t == nil {
		for !cond() {
			runtime.Gosched()
		}
		return
	}
	if S.aborting {
		Leave()
		return
	}
	t.op, t.w, t.wobj, t.done, t.label, t.cond = OpCond, nil, nil, false, label, cond
	if !S.yield(t) {
		S.noteStack(t)
		Leave()
		runtime.Goexit()
	}
	t.op, t.cond = OpNone, nil
	Leave()
}

// Choose is a free (non-preemption) choice among n alternatives owned by the
// exploration: permutations, environment answers.
//
//go:norace
func Choose(n int) int {
	if n <= 1 {
		return 0
	}
	t := Enter()
	if t == nil {
		return 0
	}
	if S.aborting {
		Leave()
		return 0
	}
	c := S.nextChoice(n, 2, false, uint32(n)*2654435761)
	S.mix(uint64(0xC0)<<48 | uint64(c))
	Leave()
	return c
}

// Fail records a property violation detected by harness code running inside
// the execution and aborts the execution.
//
//go:norace
func Fail(format string, a ...any) {
	msg := fmt.Sprintf(format, a...)
	t := Enter()
	if t == nil {
		panic("vrt.Fail outside execution: " + msg)
	}
	S.setVerdict(VFail, msg)
	Leave()
	runtime.Goexit()
}

// Misuse records primitive misuse (what would be a runtime panic / fatal error
// in Go: unlock of unlocked mutex, negative WaitGroup, send on closed channel)
// and aborts the execution. Called between Enter and Leave.
//
//go:norace
func Misuse(msg string) {
	S.setVerdict(VMisuse, msg)
	Leave()
	runtime.Goexit()
}

// Go starts fn as a controlled thread (or a plain goroutine in pass-through
// mode). The instrumenter rewrites every go statement of the library to this.
//
//go:norace
func Go(fn func()) {
	GoNamed("", fn)
}

// SystemPrefix marks threads that stand in for machinery which, in a real program, is not a goroutine of
// the code under test (the runtime's timer behind a context deadline): LiveOthers / DescribeLive - "which
// goroutines did this call leave behind" - do not count them. They are scheduled like any other thread.
const SystemPrefix = "sys:"

//go:norace
func GoNamed(name string, fn func()) {
	t := Enter()
	if t == nil {
		go fn()
		return
	}
	if S.aborting {
		Leave()
		return
	}
	if S.nthreads >= MaxThreads {
		S.setVerdict(VHorizon, "thread cap reached")
		Leave()
		runtime.Goexit()
	}
	nt := &S.threads[S.nthreads]
	S.nthreads++
	S.live++
	*nt = Thread{ID: nt.ID, wake: nt.wake, Name: name, state: tsLive, op: OpStart, ptok: -1}
	Leave()
	go threadMain(nt, fn) // the real go statement provides the parent->child edge
}

//go:norace
func threadMain(t *Thread, fn func()) {
	RaceDisable()
	<-t.wake
	aborted := S.aborting
	if !aborted {
		S.mix(uint64(t.ID)<<40 | uint64(OpStart)<<32)
	}
	t.op = OpNone
	RaceEnable()
	defer threadExit(t)
	if aborted {
		return
	}
	fn()
}

//go:norace
func threadExit(t *Thread) {
	r := recover()
	RaceReleaseMerge(unsafe.Pointer(&S.joinTok))
	RaceDisable()
	if r != nil {
		buf := make([]byte, 4096)
		n := runtime.Stack(buf, false)
		S.setVerdict(VPanic, fmt.Sprintf("panic in thread %d(%s): %v\n%s", t.ID, t.Name, r, buf[:n]))
	}
	t.state = tsDone
	t.op = OpNone
	S.live--
	if S.live == 0 {
		S.done <- struct{}{}
		RaceEnable()
		return
	}
	var next *Thread
	if !S.aborting {
		next = S.pick(nil)
		if next == nil && !S.aborting {
			S.setVerdict(VDeadlock, S.describeBlocked())
		}
	}
	if S.aborting {
		next = nil
		for i := 0; i < S.nthreads; i++ {
			if S.threads[i].state == tsLive {
				next = &S.threads[i]
				break
			}
		}
	}
	S.cur = next
	next.wake <- struct{}{}
	RaceEnable()
}

// Join blocks the calling thread until every other controlled thread of the
// execution has exited.
//
//go:norace
func Join() {
	t := Enter()
	if t == nil {
		return
	}
	if S.aborting {
		Leave()
		return
	}
	t.op, t.w, t.wobj, t.done, t.label = OpJoin, nil, nil, false, ""
	if !S.yield(t) {
		S.noteStack(t)
		Leave()
		runtime.Goexit()
	}
	t.op = OpNone
	Leave()
	RaceAcquire(unsafe.Pointer(&S.joinTok))
}

// LiveOthers returns how many controlled threads other than the caller are
// still alive (used by leak oracles after the call under test has returned).
//
//go:norace
func LiveOthers() int {
	t := Enter()
	if t == nil {
		return 0
	}
	n := 0
	for i := 0; i < S.nthreads; i++ {
		if &S.threads[i] != t && S.threads[i].state == tsLive && !strings.HasPrefix(S.threads[i].Name, SystemPrefix) {
			n++
		}
	}
	Leave()
	return n
}

// DescribeLive lists the live threads other than the caller and what they wait for.
//
//go:norace
func DescribeLive() string {
	t := Enter()
	if t == nil {
		return ""
	}
	out := ""
	for i := 0; i < S.nthreads; i++ {
		o := &S.threads[i]
		if o != t && o.state == tsLive && !strings.HasPrefix(o.Name, SystemPrefix) {
			out += fmt.Sprintf("thread %d(%s) at %s %s; ", o.ID, o.Name, o.op, o.label)
		}
	}
	Leave()
	return out
}

// SoloEnabled reports whether the calling thread could be run to its next
// visible operation and beyond without any other thread making a step — used
// by "returns promptly" oracles: from the current state, scheduling only the
// caller must let it finish. It is evaluated by the harness at the call's
// return instead, see checks; kept here for the scheduler-state query.
//
//go:norace
func CurrentID() int {
	if !S.active {
		return -1
	}
	return S.cur.ID
}

// Steps returns the number of scheduler steps so far in this execution: the
// logical clock used for call/return stamps.
//
//go:norace
func Steps() int { return S.steps }

// Exec is the record of one controlled execution.
type Exec struct {
	Points     []PointRec
	Steps      int
	Preempt    int
	Verdict    string
	VerdictMsg string
	Stacks     []string
	Hash       uint64
	Races      int
	Threads    int
}

// Options for one execution.
type RunOpts struct {
	Prefix    []int
	PrefixSig []uint32
	Permute   bool  // explore sync.Map.Range / map iteration orders as choices
	Clock     int64 // virtual clock start (ns since epoch); 0 = default epoch
	StepCap   int
}

const DefaultEpoch int64 = 1_700_000_000_000_000_000

// Run executes body as thread 0 of a fresh controlled execution, replaying
// opts.Prefix and taking choice 0 afterwards, and returns its record. It must
// be called from an uncontrolled goroutine (the explorer).
//
//go:norace
func Run(opts RunOpts, body func()) *Exec {
	s := &S
	if s.active {
		panic("vrt.Run: nested execution")
	}
	s.raceBefore = RaceErrors()
	RaceDisable()
	for i := 0; i < s.nthreads; i++ {
		t := &s.threads[i]
		*t = Thread{ID: t.ID, wake: t.wake}
	}
	for i := 0; i < s.nchans; i++ {
		s.chans[i] = chanModel{}
	}
	s.nchans = 0
	for i := 0; i < s.nobjs; i++ {
		s.objs[i] = nil
	}
	s.nobjs = 0
	s.ntimers = 0
	s.nthreads, s.live = 1, 1
	s.npoints, s.steps, s.preempt = 0, 0, 0
	s.verdict, s.verdictMsg = VNone, ""
	s.aborting = false
	s.quiet = 0
	s.loopTicks = 0
	s.prefix, s.prefixSig = opts.Prefix, opts.PrefixSig
	s.permute = opts.Permute
	s.hash = 14695981039346656037
	s.clock = opts.Clock
	if s.clock == 0 {
		s.clock = DefaultEpoch
	}
	s.clockOn = true
	s.stepCap = opts.StepCap
	if s.stepCap == 0 {
		s.stepCap = MaxSteps
	}
	t0 := &s.threads[0]
	*t0 = Thread{ID: 0, wake: t0.wake, Name: "main", state: tsLive, op: OpStart, ptok: -1}
	s.cur = t0
	s.active = true
	RaceEnable()
	go threadMain(t0, body)
	RaceDisable()
	t0.wake <- struct{}{}
	<-s.done
	s.active = false
	RaceEnable()
	RaceAcquire(unsafe.Pointer(&s.joinTok))
	x := &Exec{
		Points:     append([]PointRec(nil), s.points[:s.npoints]...),
		Steps:      s.steps,
		Preempt:    s.preempt,
		Verdict:    s.verdict,
		VerdictMsg: s.verdictMsg,
		Hash:       s.hash,
		Races:      RaceErrors() - s.raceBefore,
		Threads:    s.nthreads,
	}
	for i := 0; i < s.nthreads; i++ {
		if s.threads[i].stack != "" {
			x.Stacks = append(x.Stacks, fmt.Sprintf("thread %d(%s): %s", i, s.threads[i].Name, s.threads[i].stack))
		}
	}
	return x
}

// PermuteMaps reports whether sync.Map.Range / map iteration orders are
// explored as choices in the current execution.
//
//go:norace
func PermuteMaps() bool { return S.active && S.permute }

// Quiet runs fn (harness fixture set-up inside an execution) with the
// scheduler taking its default choice everywhere and recording no choice
// points, so set-up steps do not multiply the explored schedules. Only to be
// used while no other harness thread is running.
//
//go:norace
func Quiet(fn func()) {
	if !S.active {
		fn()
		return
	}
	S.quiet++
	defer endQuiet()
	fn()
}

//go:norace
func endQuiet() { S.quiet-- }

// LoopTick is inserted by the instrumenter at the top of the body of every
// (non-range) `for` loop of the library. It is not a scheduling point; it counts
// iterations and turns a spin that never reaches one into a horizon verdict.
//
//go:norace
func LoopTick() {
	if !S.active || S.aborting {
		return
	}
	S.loopTicks++
	if S.loopTicks > 2_000_000 {
		RaceDisable()
		S.setVerdict(VHorizon, "loops of the library iterated 2,000,000 times in one execution without it terminating (livelock / endless loop)")
		S.noteStack(S.cur)
		RaceEnable()
		runtime.Goexit()
	}
}
