// Package vtime supplies the clock and timer functions of package time that
// the instrumented library sources use, on the virtual clock of the current
// controlled execution (real time in pass-through mode).
package vtime

import (
	"context"
	"time"

	"verif/vrt"
	"verif/vrt/vsync"
)

func Now() time.Time {
	if ns, ok := vrt.ClockNow(); ok {
		return time.Unix(0, ns)
	}
	return time.Now()
}

func Since(t time.Time) time.Duration { return Now().Sub(t) }

func Until(t time.Time) time.Duration { return t.Sub(Now()) }

func Sleep(d time.Duration) {
	if !vrt.Active() {
		time.Sleep(d)
		return
	}
	<-After(d)
}

func After(d time.Duration) <-chan time.Time {
	if !vrt.Active() {
		return time.After(d)
	}
	ch := make(chan time.Time, 1)
	vrt.NewTimerChan(ch, int64(d), func(ns int64) any { return time.Unix(0, ns) })
	return ch
}

// Timer mirrors the part of time.Timer the library could use. Inside a
// controlled execution it is a modelled timer: Stop disarms it, Reset re-arms it
// on the same channel, exactly one value is delivered per firing.
type Timer struct {
	C    <-chan time.Time
	real *time.Timer
	id   int
	ch   chan time.Time
}

func NewTimer(d time.Duration) *Timer {
	if !vrt.Active() {
		r := time.NewTimer(d)
		return &Timer{C: r.C, real: r}
	}
	ch := make(chan time.Time, 1)
	id := vrt.NewTimerChan(ch, int64(d), func(ns int64) any { return time.Unix(0, ns) })
	return &Timer{C: ch, ch: ch, id: id}
}

func (t *Timer) Stop() bool {
	if t.real != nil {
		return t.real.Stop()
	}
	return vrt.StopTimer(t.id)
}

func (t *Timer) Reset(d time.Duration) bool {
	if t.real != nil {
		return t.real.Reset(d)
	}
	return vrt.ResetTimer(t.id, int64(d))
}

// ---- contexts with a deadline, created by the library itself -----------------------------------
//
// context.WithTimeout / WithDeadline in instrumented library code arm a *modelled* timer: the deadline
// passes when the harness lets virtual time pass, not when the wall clock says so. (The unchanged
// library creates no such contexts; a change that gives a call a time limit of its own must not hide
// from the exploration behind a real-time timer that never fires within an execution.)

type deadlineCtx struct {
	context.Context
	done     chan struct{}
	stop     chan struct{}
	deadline time.Time
	mu       vsync.Mutex
	err      error
	finished bool
}

func (c *deadlineCtx) Done() <-chan struct{}       { return c.done }
func (c *deadlineCtx) Deadline() (time.Time, bool) { return c.deadline, true }
func (c *deadlineCtx) Err() error {
	c.mu.Lock()
	defer c.mu.Unlock()
	return c.err
}

func (c *deadlineCtx) finish(err error) {
	c.mu.Lock()
	first := !c.finished
	if first {
		c.finished, c.err = true, err
	}
	c.mu.Unlock()
	if first {
		vrt.Close(c.done)
	}
}

func WithTimeout(parent context.Context, d time.Duration) (context.Context, context.CancelFunc) {
	if !vrt.Active() {
		return context.WithTimeout(parent, d)
	}
	c := &deadlineCtx{Context: parent, done: make(chan struct{}), stop: make(chan struct{}), deadline: Now().Add(d)}
	tch := make(chan time.Time, 1)
	id := vrt.NewTimerChan(tch, int64(d), func(ns int64) any { return time.Unix(0, ns) })
	vrt.GoNamed(vrt.SystemPrefix+"context deadline", func() {
		cases := []vrt.CaseHandle{vrt.CaseRecv(tch), vrt.CaseRecv(c.stop)}
		if parent.Done() != nil {
			cases = append(cases, vrt.CaseRecv(parent.Done()))
		}
		switch vrt.Select(false, cases...) {
		case 0:
			c.finish(context.DeadlineExceeded)
		case 2:
			c.finish(parent.Err())
		}
	})
	stopped := false
	var smu vsync.Mutex
	return c, func() {
		c.finish(context.Canceled)
		smu.Lock()
		first := !stopped
		stopped = true
		smu.Unlock()
		if first {
			vrt.StopTimer(id)
			vrt.Close(c.stop)
		}
	}
}

func WithDeadline(parent context.Context, t time.Time) (context.Context, context.CancelFunc) {
	if !vrt.Active() {
		return context.WithDeadline(parent, t)
	}
	return WithTimeout(parent, Until(t))
}
