// Package vtime supplies the clock and timer functions of package time that
// the instrumented library sources use, on the virtual clock of the current
// controlled execution (real time in pass-through mode).
package vtime

import (
	"time"

	"verif/vrt"
)

func Now() time.Time {
	if ns, ok := vrt.ClockNow(); ok {
		return time.Unix(0, ns)
	}
	return time.Now()
}

func Since(t time.Time) time.Duration { return Now().Sub(t) }

func Until(t time.Time) time.Duration { return t.Sub(Now()) }

func Sleep(d time.Duration) {
	if !vrt.Active() {
		time.Sleep(d)
		return
	}
	<-After(d)
}

func After(d time.Duration) <-chan time.Time {
	if !vrt.Active() {
		return time.After(d)
	}
	ch := make(chan time.Time, 1)
	vrt.NewTimerChan(ch, int64(d), func(ns int64) any { return time.Unix(0, ns) })
	return ch
}

// Timer mirrors the part of time.Timer the library could use. Inside a
// controlled execution it is a modelled timer: Stop disarms it, Reset re-arms it
// on the same channel, exactly one value is delivered per firing.
type Timer struct {
	C    <-chan time.Time
	real *time.Timer
	id   int
	ch   chan time.Time
}

func NewTimer(d time.Duration) *Timer {
	if !vrt.Active() {
		r := time.NewTimer(d)
		return &Timer{C: r.C, real: r}
	}
	ch := make(chan time.Time, 1)
	id := vrt.NewTimerChan(ch, int64(d), func(ns int64) any { return time.Unix(0, ns) })
	return &Timer{C: ch, ch: ch, id: id}
}

func (t *Timer) Stop() bool {
	if t.real != nil {
		return t.real.Stop()
	}
	return vrt.StopTimer(t.id)
}

func (t *Timer) Reset(d time.Duration) bool {
	if t.real != nil {
		return t.real.Reset(d)
	}
	return vrt.ResetTimer(t.id, int64(d))
}
