package vrt

import (
	"fmt"
	"reflect"
	"sort"
)

// MapIterator replaces `for k, v := range m` over a Go map in the instrumented
// sources: keys are visited in sorted order (or, when the harness asks for it,
// in an explored permutation), entries deleted before they are reached are
// skipped and the current value is read at visit time — all behaviours the Go
// specification allows for a map range, but owned by the exploration.
type MapIterator[M ~map[K]V, K comparable, V any] struct {
	m    M
	keys []K
	i    int
	K    K
	V    V
}

func MapIter[M ~map[K]V, K comparable, V any](m M) *MapIterator[M, K, V] {
	it := &MapIterator[M, K, V]{m: m}
	if len(m) == 0 {
		return it
	}
	it.keys = make([]K, 0, len(m))
	for k := range m {
		it.keys = append(it.keys, k)
	}
	sortKeys(it.keys)
	if PermuteMaps() && len(it.keys) > 1 && len(it.keys) <= 4 {
		rest := it.keys
		out := make([]K, 0, len(rest))
		for len(rest) > 0 {
			c := Choose(len(rest))
			out = append(out, rest[c])
			rest = append(rest[:c:c], rest[c+1:]...)
		}
		it.keys = out
	}
	return it
}

func (it *MapIterator[M, K, V]) Next() bool {
	for it.i < len(it.keys) {
		k := it.keys[it.i]
		it.i++
		v, ok := it.m[k]
		if !ok {
			continue
		}
		it.K, it.V = k, v
		return true
	}
	return false
}

// MapOrderReverse makes every owned map iteration (MapIter, SortValues) run in
// descending instead of ascending key order. Harnesses that run the library
// outside a controlled execution use it to cover both orders of two-entry maps.
var MapOrderReverse bool

func sortKeys[K comparable](keys []K) {
	if len(keys) < 2 {
		return
	}
	sort.SliceStable(keys, func(i, j int) bool {
		if MapOrderReverse {
			i, j = j, i
		}
		return lessAny(reflect.ValueOf(keys[i]), reflect.ValueOf(keys[j]))
	})
}

func lessAny(a, b reflect.Value) bool {
	if a.Kind() == reflect.Interface {
		a = a.Elem()
	}
	if b.Kind() == reflect.Interface {
		b = b.Elem()
	}
	if !a.IsValid() || !b.IsValid() {
		return !a.IsValid() && b.IsValid()
	}
	if a.Kind() != b.Kind() {
		return a.Kind() < b.Kind()
	}
	switch a.Kind() {
	case reflect.String:
		return a.String() < b.String()
	case reflect.Int, reflect.Int8, reflect.Int16, reflect.Int32, reflect.Int64:
		return a.Int() < b.Int()
	case reflect.Uint, reflect.Uint8, reflect.Uint16, reflect.Uint32, reflect.Uint64, reflect.Uintptr:
		return a.Uint() < b.Uint()
	case reflect.Float32, reflect.Float64:
		return a.Float() < b.Float()
	case reflect.Bool:
		return !a.Bool() && b.Bool()
	}
	return fmt.Sprint(a.Interface()) < fmt.Sprint(b.Interface())
}

// SortValues orders the result of reflect.Value.MapKeys deterministically.
func SortValues(vs []reflect.Value) []reflect.Value {
	sort.SliceStable(vs, func(i, j int) bool {
		if MapOrderReverse {
			i, j = j, i
		}
		return lessAny(vs[i], vs[j])
	})
	if PermuteMaps() && len(vs) > 1 && len(vs) <= 4 {
		rest := vs
		out := make([]reflect.Value, 0, len(rest))
		for len(rest) > 0 {
			c := Choose(len(rest))
			out = append(out, rest[c])
			rest = append(rest[:c:c], rest[c+1:]...)
		}
		return out
	}
	return vs
}

// RangeChan replaces `for v := range ch`.
type ChanIterator[T any] struct {
	ch <-chan T
	V  T
}

func ChanIter[T any](ch <-chan T) *ChanIterator[T] { return &ChanIterator[T]{ch: ch} }

func (it *ChanIterator[T]) Next() bool {
	v, ok := Recv2(it.ch)
	it.V = v
	return ok
}
