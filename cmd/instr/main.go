// Command instr is the type-aware source-to-source instrumenter: it rewrites
// the non-test sources of the six library packages so that every
// synchronisation, channel, clock and map-iteration operation goes through
// verif/vrt, and emits a `go build -overlay` file. /repo is never modified.
//
// An unsupported construct makes it exit 2 with a message: a broken check, never
// a verdict about the property.
package main

import (
	"bytes"
	"encoding/json"
	"flag"
	"fmt"
	"go/ast"
	"go/printer"
	"go/token"
	"go/types"
	"os"
	"path/filepath"
	"strconv"
	"strings"

	"golang.org/x/tools/go/ast/astutil"
	"golang.org/x/tools/go/packages"
)

const (
	vrtName   = "__vrt"
	vtimeName = "__vtime"
	vfsName   = "__vfs"
)

var pkgPatterns = []string{
	"github.com/hashicorp/eventlogger",
	"github.com/hashicorp/eventlogger/sinks/writer",
	"github.com/hashicorp/eventlogger/sinks/channel",
	"github.com/hashicorp/eventlogger/filters/gated",
	"github.com/hashicorp/eventlogger/filters/encrypt",
	"github.com/hashicorp/eventlogger/formatter_filters/cloudevents",
}

func fail(format string, a ...any) {
	fmt.Fprintf(os.Stderr, "instr: "+format+"\n", a...)
	os.Exit(2)
}

type rewriter struct {
	fset      *token.FileSet
	info      *types.Info
	file      *ast.File
	needVrt   bool
	needVtime bool
	needVfs   bool
	changed   bool
	n         int
	stats     map[string]int
}

func (r *rewriter) fresh(prefix string) string {
	r.n++
	return fmt.Sprintf("__%s%d", prefix, r.n)
}

func (r *rewriter) vrtCall(fn string, args ...ast.Expr) *ast.CallExpr {
	r.needVrt = true
	r.changed = true
	return &ast.CallExpr{Fun: &ast.SelectorExpr{X: ast.NewIdent(vrtName), Sel: ast.NewIdent(fn)}, Args: args}
}

func isVrtCall(e ast.Expr, fn string) (*ast.CallExpr, bool) {
	c, ok := e.(*ast.CallExpr)
	if !ok {
		return nil, false
	}
	s, ok := c.Fun.(*ast.SelectorExpr)
	if !ok {
		return nil, false
	}
	x, ok := s.X.(*ast.Ident)
	if !ok || x.Name != vrtName || s.Sel.Name != fn {
		return nil, false
	}
	return c, true
}

func (r *rewriter) pos(n ast.Node) string { return r.fset.Position(n.Pos()).String() }

func (r *rewriter) isPkg(x ast.Expr, path string) bool {
	id, ok := x.(*ast.Ident)
	if !ok {
		return false
	}
	pn, ok := r.info.Uses[id].(*types.PkgName)
	return ok && pn.Imported().Path() == path
}

func allBlank(es []ast.Expr) bool {
	for _, e := range es {
		if id, ok := e.(*ast.Ident); !ok || id.Name != "_" {
			return false
		}
	}
	return true
}

func (r *rewriter) post(c *astutil.Cursor) bool {
	switch n := c.Node().(type) {
	case *ast.SendStmt:
		r.stats["send"]++
		c.Replace(&ast.ExprStmt{X: r.vrtCall("Send", n.Chan, n.Value)})

	case *ast.UnaryExpr:
		if n.Op != token.ARROW {
			return true
		}
		r.stats["recv"]++
		fn := "Recv"
		if tv, ok := r.info.Types[n]; ok {
			if _, isTuple := tv.Type.(*types.Tuple); isTuple {
				fn = "Recv2"
			}
		}
		c.Replace(r.vrtCall(fn, n.X))

	case *ast.CallExpr:
		switch f := n.Fun.(type) {
		case *ast.Ident:
			if f.Name == "close" {
				if _, ok := r.info.Uses[f].(*types.Builtin); ok {
					r.stats["close"]++
					c.Replace(r.vrtCall("Close", n.Args...))
				}
			}
		case *ast.SelectorExpr:
			if f.Sel.Name == "MapKeys" {
				if sel, ok := r.info.Selections[f]; ok {
					if named, ok := sel.Recv().(*types.Named); ok && named.Obj().Pkg() != nil && named.Obj().Pkg().Path() == "reflect" && named.Obj().Name() == "Value" {
						r.stats["mapkeys"]++
						c.Replace(r.vrtCall("SortValues", n))
					}
				}
			}
			// sync/atomic: every atomic operation is a scheduling point (the unchanged library has none; a
			// change that introduces lock-free state must not escape the interleaving search)
			if sel, ok := r.info.Selections[f]; ok && sel.Kind() == types.MethodVal && sel.Obj().Pkg() != nil && sel.Obj().Pkg().Path() == "sync/atomic" {
				r.stats["atomic"]++
				recv := f.X
				if tv, ok := r.info.Types[f.X]; ok {
					if _, isPtr := tv.Type.Underlying().(*types.Pointer); !isPtr {
						recv = &ast.UnaryExpr{Op: token.AND, X: f.X}
					}
				}
				f.X = r.vrtCall("AtomicPoint", recv)
			} else if r.isPkg(f.X, "sync/atomic") && len(n.Args) > 0 {
				r.stats["atomic"]++
				n.Args[0] = r.vrtCall("AtomicPoint", n.Args[0])
			}
			if f.Sel.Name == "MapRange" {
				if sel, ok := r.info.Selections[f]; ok {
					if named, ok := sel.Recv().(*types.Named); ok && named.Obj().Pkg() != nil && named.Obj().Pkg().Path() == "reflect" {
						fail("%s: reflect.Value.MapRange is not supported by the instrumenter", r.pos(n))
					}
				}
			}
		}

	case *ast.SelectorExpr:
		if r.isPkg(n.X, "os") {
			switch n.Sel.Name {
			case "MkdirAll", "OpenFile", "Chmod", "Rename", "Remove", "Stat":
				r.stats["fs"]++
				r.needVfs = true
				r.changed = true
				c.Replace(&ast.SelectorExpr{X: ast.NewIdent(vfsName), Sel: n.Sel})
				return true
			}
		}
		if r.isPkg(n.X, "path/filepath") && n.Sel.Name == "Glob" {
			r.stats["fs"]++
			r.needVfs = true
			r.changed = true
			c.Replace(&ast.SelectorExpr{X: ast.NewIdent(vfsName), Sel: n.Sel})
			return true
		}
		if r.isPkg(n.X, "context") && (n.Sel.Name == "WithTimeout" || n.Sel.Name == "WithDeadline") {
			// a time limit the library gives itself runs on the virtual clock
			r.stats["ctxdeadline"]++
			r.needVtime = true
			r.changed = true
			c.Replace(&ast.SelectorExpr{X: ast.NewIdent(vtimeName), Sel: n.Sel})
			return true
		}
		if r.isPkg(n.X, "time") {
			switch n.Sel.Name {
			case "Now", "Since", "Until", "Sleep", "After", "NewTimer", "Timer":
				r.stats["time"]++
				r.needVtime = true
				r.changed = true
				c.Replace(&ast.SelectorExpr{X: ast.NewIdent(vtimeName), Sel: n.Sel})
			case "AfterFunc", "Tick", "NewTicker", "Ticker":
				fail("%s: time.%s is not supported by the instrumenter", r.pos(n), n.Sel.Name)
			}
		}

	case *ast.ForStmt:
		if n.Body != nil {
			// a loop can spin without ever reaching a scheduling point: count its
			// iterations so a livelock becomes a verdict instead of a hang
			r.stats["looptick"]++
			tick := &ast.ExprStmt{X: r.vrtCall("LoopTick")}
			n.Body.List = append([]ast.Stmt{tick}, n.Body.List...)
		}

	case *ast.GoStmt:
		r.stats["go"]++
		c.Replace(r.rewriteGo(n))

	case *ast.SelectStmt:
		r.stats["select"]++
		c.Replace(r.rewriteSelect(n))

	case *ast.RangeStmt:
		var t types.Type
		if tv, ok := r.info.Types[n.X]; ok {
			t = tv.Type
		}
		if t == nil {
			return true
		}
		switch t.Underlying().(type) {
		case *types.Map:
			r.stats["maprange"]++
			c.Replace(r.rewriteMapRange(n))
		case *types.Chan:
			r.stats["chanrange"]++
			c.Replace(r.rewriteChanRange(n))
		}
	}
	return true
}

func (r *rewriter) rewriteGo(g *ast.GoStmt) ast.Stmt {
	call := g.Call
	if fl, ok := call.Fun.(*ast.FuncLit); ok && len(call.Args) == 0 && fl.Type.Results == nil {
		return &ast.ExprStmt{X: r.vrtCall("Go", fl)}
	}
	var lhs, rhs []ast.Expr
	newCall := &ast.CallExpr{Ellipsis: call.Ellipsis}
	switch f := call.Fun.(type) {
	case *ast.FuncLit:
		newCall.Fun = f
	case *ast.Ident:
		if _, ok := r.info.Uses[f].(*types.Builtin); ok {
			fail("%s: go statement on a builtin is not supported", r.pos(g))
		}
		if _, ok := r.info.Uses[f].(*types.Func); ok {
			newCall.Fun = f // package-level function: nothing to evaluate early
		} else {
			name := r.fresh("gf")
			lhs, rhs = append(lhs, ast.NewIdent(name)), append(rhs, f)
			newCall.Fun = ast.NewIdent(name)
		}
	default:
		if tv, ok := r.info.Types[call.Fun]; ok && tv.IsType() {
			fail("%s: go statement on a conversion is not supported", r.pos(g))
		}
		name := r.fresh("gf")
		lhs, rhs = append(lhs, ast.NewIdent(name)), append(rhs, call.Fun)
		newCall.Fun = ast.NewIdent(name)
	}
	for _, a := range call.Args {
		if tv, ok := r.info.Types[a]; ok && (tv.Value != nil || tv.IsNil()) {
			newCall.Args = append(newCall.Args, a)
			continue
		}
		name := r.fresh("ga")
		lhs, rhs = append(lhs, ast.NewIdent(name)), append(rhs, a)
		newCall.Args = append(newCall.Args, ast.NewIdent(name))
	}
	body := &ast.BlockStmt{List: []ast.Stmt{&ast.ExprStmt{X: newCall}}}
	goCall := &ast.ExprStmt{X: r.vrtCall("Go", &ast.FuncLit{Type: &ast.FuncType{Params: &ast.FieldList{}}, Body: body})}
	if len(lhs) == 0 {
		return goCall
	}
	return &ast.BlockStmt{List: []ast.Stmt{
		&ast.AssignStmt{Lhs: lhs, Tok: token.DEFINE, Rhs: rhs},
		goCall,
	}}
}

func (r *rewriter) rewriteSelect(s *ast.SelectStmt) ast.Stmt {
	var handles, inits []ast.Expr
	hasDefault := false
	sw := &ast.SwitchStmt{Body: &ast.BlockStmt{}}
	idx := 0
	for _, cl := range s.Body.List {
		cc := cl.(*ast.CommClause)
		if cc.Comm == nil {
			hasDefault = true
			sw.Body.List = append(sw.Body.List, &ast.CaseClause{List: nil, Body: cc.Body})
			continue
		}
		h := r.fresh("k")
		var pre []ast.Stmt
		switch cm := cc.Comm.(type) {
		case *ast.ExprStmt:
			if c, ok := isVrtCall(cm.X, "Send"); ok {
				inits = append(inits, r.vrtCall("CaseSend", c.Args...))
			} else if c, ok := isVrtCall(cm.X, "Recv"); ok {
				inits = append(inits, r.vrtCall("CaseRecv", c.Args...))
			} else {
				fail("%s: unsupported select communication clause", r.pos(cc))
			}
		case *ast.AssignStmt:
			if len(cm.Rhs) != 1 {
				fail("%s: unsupported select communication clause", r.pos(cc))
			}
			tok := cm.Tok
			if allBlank(cm.Lhs) {
				tok = token.ASSIGN
			}
			if c, ok := isVrtCall(cm.Rhs[0], "Recv"); ok && len(cm.Lhs) == 1 {
				inits = append(inits, r.vrtCall("CaseRecv", c.Args...))
				pre = append(pre, &ast.AssignStmt{Lhs: cm.Lhs, Tok: tok, Rhs: []ast.Expr{
					&ast.SelectorExpr{X: ast.NewIdent(h), Sel: ast.NewIdent("V")}}})
			} else if c, ok := isVrtCall(cm.Rhs[0], "Recv2"); ok && len(cm.Lhs) == 2 {
				inits = append(inits, r.vrtCall("CaseRecv", c.Args...))
				pre = append(pre, &ast.AssignStmt{Lhs: cm.Lhs, Tok: tok, Rhs: []ast.Expr{
					&ast.SelectorExpr{X: ast.NewIdent(h), Sel: ast.NewIdent("V")},
					&ast.SelectorExpr{X: ast.NewIdent(h), Sel: ast.NewIdent("OK")}}})
			} else {
				fail("%s: unsupported select receive clause", r.pos(cc))
			}
		default:
			fail("%s: unsupported select communication clause", r.pos(cc))
		}
		handles = append(handles, ast.NewIdent(h))
		sw.Body.List = append(sw.Body.List, &ast.CaseClause{
			List: []ast.Expr{&ast.BasicLit{Kind: token.INT, Value: strconv.Itoa(idx)}},
			Body: append(pre, cc.Body...),
		})
		idx++
	}
	def := "false"
	if hasDefault {
		def = "true"
	} else {
		// a select whose every clause returns is a terminating statement; a switch is one only with a
		// default clause. Select never answers an index that is not a clause.
		sw.Body.List = append(sw.Body.List, &ast.CaseClause{List: nil, Body: []ast.Stmt{
			&ast.ExprStmt{X: &ast.CallExpr{Fun: ast.NewIdent("panic"), Args: []ast.Expr{&ast.BasicLit{Kind: token.STRING, Value: strconv.Quote("vrt: select answered an arm that does not exist")}}}}}})
	}
	args := []ast.Expr{ast.NewIdent(def)}
	args = append(args, handles...)
	if len(handles) > 0 {
		sw.Init = &ast.AssignStmt{Lhs: append([]ast.Expr(nil), handles...), Tok: token.DEFINE, Rhs: inits}
	}
	sw.Tag = r.vrtCall("Select", args...)
	return sw
}

func (r *rewriter) rewriteMapRange(n *ast.RangeStmt) ast.Stmt {
	it := r.fresh("it")
	var lhs, rhs []ast.Expr
	add := func(e ast.Expr, field string) {
		if e == nil {
			return
		}
		if id, ok := e.(*ast.Ident); ok && id.Name == "_" {
			return
		}
		lhs = append(lhs, e)
		rhs = append(rhs, &ast.SelectorExpr{X: ast.NewIdent(it), Sel: ast.NewIdent(field)})
	}
	add(n.Key, "K")
	add(n.Value, "V")
	body := &ast.BlockStmt{}
	if len(lhs) > 0 {
		body.List = append(body.List, &ast.AssignStmt{Lhs: lhs, Tok: n.Tok, Rhs: rhs})
	}
	body.List = append(body.List, n.Body.List...)
	return &ast.ForStmt{
		Init: &ast.AssignStmt{Lhs: []ast.Expr{ast.NewIdent(it)}, Tok: token.DEFINE, Rhs: []ast.Expr{r.vrtCall("MapIter", n.X)}},
		Cond: &ast.CallExpr{Fun: &ast.SelectorExpr{X: ast.NewIdent(it), Sel: ast.NewIdent("Next")}},
		Body: body,
	}
}

func (r *rewriter) rewriteChanRange(n *ast.RangeStmt) ast.Stmt {
	it := r.fresh("it")
	body := &ast.BlockStmt{}
	if n.Key != nil {
		if id, ok := n.Key.(*ast.Ident); !ok || id.Name != "_" {
			body.List = append(body.List, &ast.AssignStmt{Lhs: []ast.Expr{n.Key}, Tok: n.Tok,
				Rhs: []ast.Expr{&ast.SelectorExpr{X: ast.NewIdent(it), Sel: ast.NewIdent("V")}}})
		}
	}
	body.List = append(body.List, n.Body.List...)
	return &ast.ForStmt{
		Init: &ast.AssignStmt{Lhs: []ast.Expr{ast.NewIdent(it)}, Tok: token.DEFINE, Rhs: []ast.Expr{r.vrtCall("ChanIter", n.X)}},
		Cond: &ast.CallExpr{Fun: &ast.SelectorExpr{X: ast.NewIdent(it), Sel: ast.NewIdent("Next")}},
		Body: body,
	}
}

func main() {
	out := flag.String("out", "", "output directory for rewritten files and overlay.json")
	dir := flag.String("dir", "/verif", "module directory from which the library packages are loaded")
	verbose := flag.Bool("v", false, "print statistics")
	flag.Parse()
	if *out == "" {
		fail("missing -out")
	}
	if err := os.MkdirAll(*out, 0o755); err != nil {
		fail("%v", err)
	}
	cfg := &packages.Config{
		Mode: packages.NeedName | packages.NeedFiles | packages.NeedCompiledGoFiles | packages.NeedSyntax |
			packages.NeedTypes | packages.NeedTypesInfo | packages.NeedImports | packages.NeedDeps,
		Dir:   *dir,
		Tests: false,
		Env:   append(os.Environ(), "GOFLAGS=-mod=mod", "GOPROXY=off", "GOSUMDB=off", "GOTOOLCHAIN=local"),
	}
	if mf := os.Getenv("VERIF_MODFLAG"); mf != "" {
		cfg.BuildFlags = []string{mf}
	}
	pkgs, err := packages.Load(cfg, pkgPatterns...)
	if err != nil {
		fail("load: %v", err)
	}
	if len(pkgs) != len(pkgPatterns) {
		fail("loaded %d packages, want %d", len(pkgs), len(pkgPatterns))
	}
	overlay := map[string]string{}
	total := map[string]int{}
	for _, p := range pkgs {
		if len(p.Errors) > 0 {
			for _, e := range p.Errors {
				fmt.Fprintln(os.Stderr, "instr:", e)
			}
			fail("package %s does not type-check (the library itself does not build)", p.PkgPath)
		}
		for i, f := range p.Syntax {
			name := p.CompiledGoFiles[i]
			if strings.HasSuffix(name, "_test.go") || !strings.HasSuffix(name, ".go") {
				continue
			}
			r := &rewriter{fset: p.Fset, info: p.TypesInfo, file: f, stats: map[string]int{}}
			// imports first: sync -> vsync
			for _, im := range f.Imports {
				path, _ := strconv.Unquote(im.Path.Value)
				if path == "sync" {
					if im.Name != nil && im.Name.Name != "sync" {
						fail("%s: renamed import of sync is not supported", name)
					}
					im.Path.Value = strconv.Quote("verif/vrt/vsync")
					im.Name = ast.NewIdent("sync")
					r.changed = true
					r.stats["syncimport"]++
				}
			}
			astutil.Apply(f, nil, r.post)
			if r.changed {
				// drop free-floating comments of rewritten files (the printer would
				// misplace them inside rewritten statements); keep what precedes the
				// package clause and compiler directives.
				var keep []*ast.CommentGroup
				for _, cg := range f.Comments {
					directive := false
					for _, cm := range cg.List {
						if strings.HasPrefix(cm.Text, "//go:") || strings.HasPrefix(cm.Text, "//line ") {
							directive = true
						}
					}
					if cg.End() < f.Package || directive {
						keep = append(keep, cg)
					}
				}
				f.Comments = keep
			}
			if !r.changed {
				continue
			}
			if r.needVrt {
				astutil.AddNamedImport(p.Fset, f, vrtName, "verif/vrt")
			}
			if r.needVfs {
				astutil.AddNamedImport(p.Fset, f, vfsName, "verif/vrt/vfs")
			}
			if r.needVtime {
				astutil.AddNamedImport(p.Fset, f, vtimeName, "verif/vrt/vtime")
				if !astutil.UsesImport(f, "time") {
					// keep the import alive: other identifiers (time.Time, time.Duration) usually remain
					astutil.DeleteImport(p.Fset, f, "time")
				}
			}
			// a file whose only uses of a package were calls that are now routed elsewhere
			for _, path := range []string{"os", "context", "sync/atomic", "path/filepath", "io/ioutil"} {
				if !astutil.UsesImport(f, path) {
					astutil.DeleteImport(p.Fset, f, path)
				}
			}
			var buf bytes.Buffer
			if err := printer.Fprint(&buf, p.Fset, f); err != nil {
				fail("print %s: %v", name, err)
			}
			rel := strings.ReplaceAll(strings.TrimPrefix(name, "/"), "/", "__")
			dst := filepath.Join(*out, rel)
			if err := os.WriteFile(dst, buf.Bytes(), 0o644); err != nil {
				fail("%v", err)
			}
			overlay[name] = dst
			for k, v := range r.stats {
				total[k] += v
			}
		}
	}
	b, _ := json.MarshalIndent(map[string]any{"Replace": overlay}, "", " ")
	if err := os.WriteFile(filepath.Join(*out, "overlay.json"), b, 0o644); err != nil {
		fail("%v", err)
	}
	if *verbose {
		fmt.Fprintf(os.Stderr, "instr: %d files rewritten: %v\n", len(overlay), total)
	}
}
