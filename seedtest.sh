#!/bin/bash
# ./seedtest.sh <patch.diff> <check id> [more check ids...]
# Applies a seeded (property-breaking) change to /repo, runs the given checks (quick tier),
# prints whether each one reported a violation, and ALWAYS restores /repo afterwards.
# /repo must be clean (committed) before the call.
set -u
patch=$(readlink -f "$1"); shift
cd /verif
if [ -n "$(git -C /repo status --porcelain)" ]; then echo "seedtest: /repo is not clean" >&2; exit 2; fi
trap 'git -C /repo checkout -- . ; git -C /repo clean -fdq' EXIT
git -C /repo apply "$patch" || { echo "seedtest: patch does not apply" >&2; exit 2; }
for id in "$@"; do
  out=$(VERIF_NO_EVIDENCE=1 ./run "$id" quick 2>&1); rc=$?
  v=$(echo "$out" | grep -c '^VIOLATION')
  echo "seed=$(basename $(dirname $patch)) check=$id exit=$rc violations=$v"
  echo "$out" | grep -E '^violation:' | head -2 | cut -c1-400
  echo "$out" | grep -A1 -E '^violation:' | grep -v '^violation' | head -2 | cut -c1-500
  echo "$out" | grep -E 'BROKEN' | head -2 | cut -c1-300
done
