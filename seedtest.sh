#!/bin/bash
# ./seedtest.sh <patch.diff> <check id> [more check ids...]
# Applies a seeded (property-breaking) change to a scratch worktree of /repo (never to /repo
# itself), runs the given checks (quick tier) against that worktree and removes it again.
set -u
patch=$(readlink -f "$1"); shift
cd /verif
wt=/dev/shm/verif-seed-$$
trap 'git -C /repo worktree remove --force "$wt" 2>/dev/null; git -C /repo worktree prune' EXIT
git -C /repo worktree add -q --detach "$wt" HEAD || exit 2
# a seed was written against the /repo of its day; later fix: commits may have moved its context
if ! git -C "$wt" apply "$patch" 2>/dev/null; then
  git -C "$wt" apply --3way "$patch" >/dev/null 2>&1
  # where the seed rewrites the very lines a later fix touched, the seed's version of the file wins
  for f in $(git -C "$wt" diff --name-only --diff-filter=U); do git -C "$wt" checkout --theirs -- "$f" 2>/dev/null; done
  if git -C "$wt" diff --quiet HEAD -- . 2>/dev/null && [ -z "$(git -C "$wt" status --porcelain)" ]; then echo "seedtest: patch does not apply (not even as a 3-way merge)" >&2; exit 2; fi
fi
for id in "$@"; do
  out=$(VERIF_REPO="$wt" VERIF_NO_EVIDENCE=1 ./run "$id" quick 2>&1); rc=$?
  v=$(echo "$out" | grep -c '^VIOLATION')
  echo "seed=$(basename $(dirname $patch)) check=$id exit=$rc violations=$v"
  echo "$out" | grep -A1 -E '^violation:' | grep -v '^violation' | head -2 | cut -c1-500
  echo "$out" | grep -E 'BROKEN' | head -2 | cut -c1-300
done
