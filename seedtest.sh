#!/bin/bash
# ./seedtest.sh <patch.diff> <check id> [more check ids...]
# Applies a seeded (property-breaking) change to a scratch worktree of /repo (never to /repo
# itself), runs the given checks (quick tier) against that worktree and removes it again.
set -u
patch=$(readlink -f "$1"); shift
cd /verif
wt=/dev/shm/verif-seed-$$
trap 'git -C /repo worktree remove --force "$wt" 2>/dev/null; git -C /repo worktree prune' EXIT
git -C /repo worktree add -q --detach "$wt" HEAD || exit 2
git -C "$wt" apply "$patch" || { echo "seedtest: patch does not apply" >&2; exit 2; }
for id in "$@"; do
  out=$(VERIF_REPO="$wt" VERIF_NO_EVIDENCE=1 ./run "$id" quick 2>&1); rc=$?
  v=$(echo "$out" | grep -c '^VIOLATION')
  echo "seed=$(basename $(dirname $patch)) check=$id exit=$rc violations=$v"
  echo "$out" | grep -A1 -E '^violation:' | grep -v '^violation' | head -2 | cut -c1-500
  echo "$out" | grep -E 'BROKEN' | head -2 | cut -c1-300
done
