// Package seqmc is the explicit-state breadth-first search over call histories
// of real objects (DESIGN.md §2.4). The transition function is the real API: a
// state is the shortest history reaching it; a successor is obtained by
// replaying that history on a fresh instance and applying one more operation.
// A reference model takes the same operations in lockstep inside the harness's
// Instance; every transition is checked. States are de-duplicated on the
// canonical dump of the implementation's entire private state plus the model
// state, so merged states have the same futures.
package seqmc

import (
	"encoding/json"
	"fmt"
	"strings"
	"time"

	"verif/hk"
	"verif/vrt"
)

// Instance is one fresh implementation+model pair.
type Instance interface {
	// Apply performs operation op on implementation and model and returns an
	// observation signature and, if the implementation disagrees with the
	// model or an invariant broke, a violation description.
	Apply(op string) (obs string, violation string)
	// Key is the canonical state used for de-duplication.
	Key() string
}

// Harness describes one BFS.
type Harness struct {
	Property string
	// Configs lists the independent configurations (scenarios); each has its
	// own alphabet and depth.
	Configs func(tier string) []Config
	// New builds a fresh instance for configuration cfg. replay lets the
	// instance build a second copy of the current history for probe checks.
	New func(tier string, cfg int) Instance
}

type Config struct {
	Name     string
	Alphabet []string
	Depth    int
	Permute  bool
}

// runHistory executes history on a fresh instance inside controlled
// executions: the default (deterministic) schedule, and - when the
// configuration asks for it - every order of the map iterations performed by
// the last operation (explored permutation choices; the earlier operations are
// replayed quietly). All explored executions must agree on state and
// observation.
func runHistory(h *Harness, tier string, cfg int, c Config, hist []string, checkAll bool) (key string, obs string, viol string, x *vrt.Exec) {
	var firstKey, firstObs string
	n := 0
	body := func() string {
		var k, o, v string
		inst := h.New(tier, cfg)
		apply := func(i int, op string) bool {
			oo, vv := inst.Apply(op)
			if vv != "" && (checkAll || i == len(hist)-1) {
				v = fmt.Sprintf("step %d %s: %s", i+1, op, vv)
				return false
			}
			if i == len(hist)-1 {
				o = oo
			}
			return true
		}
		ok := true
		if len(hist) > 1 {
			vrt.Quiet(func() {
				for i, op := range hist[:len(hist)-1] {
					if !apply(i, op) {
						ok = false
						return
					}
				}
			})
		}
		if ok && len(hist) > 0 {
			ok = apply(len(hist)-1, hist[len(hist)-1])
		}
		if ok {
			k = inst.Key()
		}
		if v != "" {
			vrt.Fail("%s", v)
		}
		return k + "\x00" + o
	}
	ex := &vrt.Explorer{Bound: 0, Permute: c.Permute, Body: body}
	ex.Oracle = func(xx *vrt.Exec, outcome string) string {
		x = xx
		parts := strings.SplitN(outcome, "\x00", 2)
		if len(parts) < 2 {
			return ""
		}
		if n == 0 {
			firstKey, firstObs = parts[0], parts[1]
		} else if parts[0] != firstKey || parts[1] != firstObs {
			// The step's outcome depends on the order in which a map was visited. That is not a violation
			// of anything (the per-step oracle has judged every order on its own); the search continues
			// from the first order's successor and the evidence counts such steps.
			OrderDependentSteps++
		}
		n++
		return ""
	}
	ex.OnViolation = func(v *vrt.Violation) bool {
		if viol == "" {
			if v.Kind == "oracle" || v.Kind == vrt.VFail {
				viol = v.Detail
			} else {
				viol = v.Kind + ": " + v.Detail
			}
		}
		return false
	}
	if !c.Permute {
		ex.MaxExecs = 1
	}
	ex.Explore(nil, false)
	if x == nil {
		x = &vrt.Exec{}
	}
	x.Steps = ex.Steps
	return firstKey, firstObs, viol, x
}

// OrderDependentSteps counts last operations whose resulting state or observation differed between two
// map-visiting orders (per worker process; reported in the job results).
var OrderDependentSteps int64

//go:norace
func setRes(p *string, v string) { *p = v }

func names(c Config, idx []int) []string {
	out := make([]string, len(idx))
	for i, k := range idx {
		out[i] = c.Alphabet[k]
	}
	return out
}

// RunJob expands one state (job.Prefix = history as alphabet indices).
func RunJob(h *Harness, tier string, job hk.Job, deadline time.Time) *hk.Result {
	res := &hk.Result{}
	cfgs := h.Configs(tier)
	c := cfgs[job.Scn]
	findings := hk.LoadFindings(h.Property)
	if strings.HasPrefix(job.Arg, "replay:") {
		var hist []string
		json.Unmarshal([]byte(strings.TrimPrefix(job.Arg, "replay:")), &hist)
		_, _, viol, _ := runHistory(h, tier, job.Scn, c, hist, true)
		if viol != "" {
			kind := "oracle"
			for _, k := range []string{vrt.VDeadlock, vrt.VPanic, vrt.VMisuse, vrt.VHorizon, vrt.VFail} {
				if strings.HasPrefix(viol, k+":") {
					kind = k
				}
			}
			res.Violations = append(res.Violations, hk.Viol{Scn: job.Scn, Name: c.Name, Kind: kind, Detail: viol, History: hist})
		}
		return res
	}
	hist := names(c, job.Prefix)
	if len(job.Prefix) == 0 {
		// the initial state itself
		key, _, viol, _ := runHistory(h, tier, job.Scn, c, nil, true)
		if viol != "" {
			res.Err = "initial state of " + c.Name + ": " + viol
			return res
		}
		res.Samples = append(res.Samples, map[string]any{"config": c.Name, "alphabet": c.Alphabet, "depth": c.Depth, "initial_state": trunc(key, 400)})
	}
	if len(job.Prefix) >= c.Depth {
		return res
	}
	for a := range c.Alphabet {
		if !deadline.IsZero() && time.Now().After(deadline) {
			res.Capped = true
			return res
		}
		nh := append(append([]string(nil), hist...), c.Alphabet[a])
		odBefore := OrderDependentSteps
		key, obs, viol, x := runHistory(h, tier, job.Scn, c, nh, false)
		if OrderDependentSteps > odBefore {
			res.Add("map_order_dependent_steps", 1)
		}
		res.Add("execs", 1)
		res.Add("steps", int64(x.Steps)+int64(len(nh)))
		res.Add("max_depth", int64(len(nh)))
		if viol != "" {
			kind := "oracle"
			for _, k := range []string{vrt.VDeadlock, vrt.VPanic, vrt.VMisuse, vrt.VHorizon, vrt.VFail} {
				if strings.HasPrefix(viol, k+":") {
					kind = k
				}
			}
			v := hk.Viol{Scn: job.Scn, Name: c.Name, Kind: kind, Detail: viol, History: nh}
			if id := hk.MatchFinding(findings, &v); id != "" {
				v.Known = id
				res.Add("known_hits", 1)
				dup := false
				for _, o := range res.Violations {
					if o.Known == id {
						dup = true
					}
				}
				if !dup {
					res.Violations = append(res.Violations, v)
				}
				continue // do not expand below a known-bad step
			}
			res.Violations = append(res.Violations, v)
			return res
		}
		res.Outcome(c.Alphabet[a] + " => " + obs)
		child := append(append([]int(nil), job.Prefix...), a)
		res.Children = append(res.Children, child)
		res.ChildKeys = append(res.ChildKeys, fmt.Sprintf("%d|%s", job.Scn, hk.Hash128(key)))
		if len(res.Samples) < 2 && len(nh) == c.Depth {
			res.Samples = append(res.Samples, map[string]any{"config": c.Name, "history": nh, "last_observation": obs})
		}
	}
	return res
}

func trunc(s string, n int) string {
	if len(s) > n {
		return s[:n] + "…"
	}
	return s
}

// Check wraps a Harness into an hk.Check.
func Check(h *Harness, rule string, assumptions []string, quick, thorough time.Duration) *hk.Check {
	return &hk.Check{
		ID: h.Property,
		Scenarios: func(tier string) []string {
			var n []string
			for _, c := range h.Configs(tier) {
				n = append(n, c.Name)
			}
			return n
		},
		RunJob: func(tier string, job hk.Job, deadline time.Time) *hk.Result {
			return RunJob(h, tier, job, deadline)
		},
		BFS:            true,
		Rule:           rule,
		Assumptions:    assumptions,
		QuickBudget:    quick,
		ThoroughBudget: thorough,
	}
}
