#!/bin/bash
# Runs every registered check (tier $1, default quick) and prints a one-line summary per property.
tier=${1:-quick}
cd "$(dirname "$0")"
fail=0
for id in $(python3 -c "import json;print(' '.join(c['property_id'] for c in json.load(open('MANIFEST.json'))['checks']))"); do
  start=$(date +%s)
  out=$(./run $id $tier 2>&1); rc=$?
  end=$(date +%s)
  echo "$id rc=$rc $((end-start))s $(echo "$out" | grep -E "^$id $tier:" | tail -1 | cut -c1-200)"
  echo "$out" | grep -E "^VIOLATION|^BROKEN" | head -3
  [ $rc != 0 ] && fail=1
done
exit $fail
