module verif

go 1.23

require (
	github.com/hashicorp/eventlogger v0.2.10
	golang.org/x/tools v0.29.0
)

require (
	github.com/hashicorp/errwrap v1.1.0 // indirect
	github.com/hashicorp/eventlogger/filters/encrypt v0.0.0-00010101000000-000000000000 // indirect
	github.com/hashicorp/go-multierror v1.1.1 // indirect
	github.com/hashicorp/go-secure-stdlib/base62 v0.1.2 // indirect
	github.com/hashicorp/go-secure-stdlib/strutil v0.1.2 // indirect
	github.com/hashicorp/go-uuid v1.0.3 // indirect
	github.com/ryanuber/go-glob v1.0.0 // indirect
	golang.org/x/mod v0.22.0 // indirect
	golang.org/x/sync v0.10.0 // indirect
)

replace github.com/hashicorp/eventlogger => /repo

replace github.com/hashicorp/eventlogger/filters/encrypt => /repo/filters/encrypt
